"""C15 — SQuad integrates the interpolant of the samples exactly.

Oracle: trapz -> prefix trapezoid sums (numpy); cspline -> scipy CubicSpline(bc).antiderivative() at the knots;
simpson -> independent exact integration of the piecewise parabolas (pairs of intervals; an odd trailing interval uses the
parabola through the last three points). Everything is evaluated along the requested dimension with numpy axis handling.
"""
from __future__ import annotations

import numpy as np
import torch
from hypothesis import strategies as st
from scipy.interpolate import CubicSpline

from pbt import gen
from pbt.harness import Task, ok, violation, discard, xt_call

PID = "C15"
RULE = ("method in {trapz, simpson, cspline x bc} x non-uniform grid (2..40 points, odd and even, spacing ratio <=100) x y of rank 1..4 "
        "with the integration axis at any position (positive or negative dim) x keepdim x dtype x unit of x in {1, 1e-8, 1e-4, 1e3, 1e5, 1e6} "
        "(both dtypes; the grid is the same numbers times the unit) x unit of y in {1, 1e-5, 1e3} x documented defaults spelled explicitly / as None / "
        "omitted (method None or omitted == cspline with the REQUESTED bc_type, bc_type omitted == natural); relation 'units': cumsum on 2^k*x == 2^k*cumsum on x; relations: value vs reference, "
        "cumsum[0]==0, cumsum[-1]==integrate, linearity, wrong length rejected. Non-trivial = >=3 points and a non-constant y; "
        "distinct by canonical case.")
ASSUMPTIONS = [
    "x is a 1-D tensor (SQuad rejects anything else); not-a-knot needs >=4 points, other splines >=3",
    "tolerance at unit 1: f64 1e-10*ratio^2*scale, f32 2e-3*ratio*scale (spline system solved in the case dtype); scale=(max|y|+yunit)*(x[-1]-x[0])",
    "tolerance at other units (cspline): 50*eps(dtype)*ratio*scale for natural/periodic (measured <= 0.95*eps*ratio on the unchanged tree over 6000 grids, "
    "units 1e-8..1e6, both dtypes); clamped/not-a-knot: 50*eps*ratio^2*disparity*scale, disparity = ratio of the largest to the smallest row scale of "
    "xitorch's slope system (KNOWN WEAKNESS, reported, not repaired: the boundary rows are not scaled like the interior rows, the unchanged tree is not "
    "homogeneous in the unit of x for these two boundary conditions)",
    "units other than 1 only with near offsets (|x0| <= 5 spacings scale) so that float32 keeps the knots apart",
    "simpson's cumulative value at an odd index uses the parabola through the last three points (the documented irregular composite rule)",
]
LEVEL_TEXT = ("Differential exploration against NumPy/SciPy references and an independent parabola integrator over generated grids, "
              "tensor ranks, integration axes and keepdim settings.")
LEVEL_NOTE = "trusts scipy CubicSpline.antiderivative, numpy polyfit/polyint on 3 points, numpy axis semantics"
TECHNIQUE = "Hypothesis property-based testing: differential oracle (SciPy/NumPy/own parabola rule) + algebraic relations"

DT = {"f64": torch.float64, "f32": torch.float32}


def ref_cumsum(method, bc, xs, ys):
    """ys: (..., n) float64 -> cumulative integral along the last axis"""
    n = len(xs)
    out = np.zeros_like(ys)
    if method == "trapz":
        seg = 0.5 * (ys[..., 1:] + ys[..., :-1]) * (xs[1:] - xs[:-1])
        out[..., 1:] = np.cumsum(seg, axis=-1)
        return out
    if method == "cspline":
        cs = CubicSpline(xs, ys, axis=-1, bc_type=bc)
        anti = cs.antiderivative()
        return anti(xs) - anti(xs[:1])
    if method == "simpson":
        flat = ys.reshape(-1, n)
        res = np.zeros_like(flat)
        for r, row in enumerate(flat):
            def par_int(i0, a, b):
                # integral over [a,b] of the parabola through points i0, i0+1, i0+2 (shifted for conditioning)
                xx = xs[i0:i0 + 3] - xs[i0 + 1]
                c = np.polyfit(xx, row[i0:i0 + 3], 2)
                P = np.polyint(c)
                return np.polyval(P, b - xs[i0 + 1]) - np.polyval(P, a - xs[i0 + 1])
            even = 0.0
            for i in range(1, n):
                if i == 1:
                    res[r, 1] = 0.5 * (row[0] + row[1]) * (xs[1] - xs[0])
                elif i % 2 == 0:
                    even += par_int(i - 2, xs[i - 2], xs[i])
                    res[r, i] = even
                else:
                    res[r, i] = even + par_int(i - 2, xs[i - 1], xs[i])
        return res.reshape(ys.shape)
    raise ValueError(method)


EPS = {"f64": 2.220446049250313e-16, "f32": 1.1920928955078125e-07}


# D56 (repaired in /repo): the clamped / not-a-knot boundary rows of the slope system were not scaled like the interior rows, so the
# accuracy depended on the unit of x (total loss in float32 at units 1e-8).  With the rows equilibrated no allowance is needed.
ROWS_EQUILIBRATED = True      # D56 repaired in /repo; the reference is evaluated in a unit of about the mean spacing (see run_case)


def row_disparity(method, bc, xs):
    """ratio between the largest and the smallest row scale of the slope system xitorch solves (GEPP is only normwise stable):
    interior / natural / periodic rows ~1/dx, the clamped rows are unit rows, the not-a-knot rows ~1/dx^2 -> 1 unless clamped/not-a-knot.
    (KNOWN WEAKNESS of the unchanged tree, reported: the boundary rows are not brought to the scale of the interior rows, so the accuracy
    of clamped / not-a-knot splines depends on the unit of x; the allowance below keeps the check quiet until that is repaired.)"""
    if method != "cspline" or bc not in ("clamped", "not-a-knot") or ROWS_EQUILIBRATED:
        return 1.0
    d = np.diff(xs)
    dmin, dmax = float(d.min()), float(d.max())
    if bc == "clamped":
        return max(1.0 / dmin, 1.0) * max(dmax, 1.0)
    db = [float(v) for v in (d[0], d[1], d[-2], d[-1])]
    return max([1.0] + [b * b / dmin for b in db] + [dmax / (b * b) for b in db])


def rel_tolerance(method, bc, dt, xs, ratio, unit):
    """tolerance relative to scale=(max|y|+yunit)*(x[-1]-x[0]).  unit == 1 (the original domain): f64 (1e-10 + 100*pert)*ratio^2 with
    pert = eps*|x|max/hmin the relative rounding of the spacings, f32 2e-3*ratio.  Other units (near offsets only): everything is
    relative by construction; cspline: 50*eps*ratio for natural/periodic (measured on the unchanged tree over 6000 grids, both dtypes,
    units 1e-8..1e6: <= 0.95*eps*ratio), 50*eps*ratio^2*row_disparity for clamped/not-a-knot (measured <= 1e-4 of that)."""
    old = ((1e-10 + 100 * 2.3e-16 * float(np.abs(xs).max()) / float(np.diff(xs).min())) * ratio ** 2) if dt == "f64" else 2e-3 * ratio
    if unit == 1.0 or method != "cspline":
        return old
    disp = row_disparity(method, bc, xs)
    if bc not in ("clamped", "not-a-knot"):
        return 50 * EPS[dt] * ratio
    return 50 * EPS[dt] * ratio ** 2 * disp


def run_case(case):
    from xitorch.integrate import SQuad
    torch.manual_seed(0)
    g = gen.seeded(case["seed"])
    method, bc = case["method"], case["bc"]
    dtype = DT[case["dtype"]]
    incs = np.array(case["incs"])
    unit = float(case.get("unit", 1.0))          # the same grid expressed in other units of x
    xs = (np.concatenate([[0.0], np.cumsum(incs)]) * case["xscale"] + case["x0"]) * unit
    n = len(xs)
    ratio = float(incs.max() / incs.min())
    x_t = torch.tensor(xs, dtype=dtype)
    xs_eff = x_t.double().numpy()
    shape = list(case["other"])
    pos = case["pos"] % (len(shape) + 1)
    shape.insert(pos, n)
    dim = pos if case["posdim"] else pos - len(shape)
    yunit = float(case.get("yunit", 1.0))
    y_t = (torch.randn(shape, generator=g, dtype=torch.float64) * yunit).to(dtype)
    if case["yconst"]:
        y_t = torch.ones_like(y_t) * 1.5 * yunit
    if method == "cspline" and bc == "periodic":
        idx = [slice(None)] * len(shape)
        first = list(idx); first[pos] = 0
        last = list(idx); last[pos] = n - 1
        y_t[tuple(last)] = y_t[tuple(first)]
    ys = np.moveaxis(y_t.double().numpy(), pos, -1)
    # documented defaults spelled explicitly / as None / left out: method None or omitted == "cspline", bc_type omitted == "natural"
    kw = {}
    msp = case.get("mspell", "explicit") if method == "cspline" else "explicit"
    bsp = case.get("bcspell", "explicit") if (method == "cspline" and bc == "natural") else "explicit"
    if msp == "explicit":
        kw["method"] = method
    elif msp == "none":
        kw["method"] = None
    if method == "cspline" and bsp == "explicit":
        kw["bc_type"] = bc
    labels = ["method=" + method, "bc=" + (bc if method == "cspline" else "-"), "n=" + ("2" if n == 2 else "odd" if n % 2 else "even"),
              "rank=%d" % len(shape), "dim=%s" % ("last" if pos == len(shape) - 1 else "inner"), "dimsign=" + ("pos" if case["posdim"] else "neg"),
              "dtype=" + case["dtype"], "rel=" + case["rel"], "offset=" + ("far" if abs(case["x0"]) >= 1e4 else "near"),
              "units=" + ("tiny" if case["xscale"] < 1e-6 else "normal"), "xunit=%g" % unit,
              "yunit=%g" % float(case.get("yunit", 1.0)), "spelling=" + ("explicit" if (msp, bsp) == ("explicit", "explicit") else "method-%s/bc-%s" % (msp, bsp))]
    sq = xt_call(SQuad, x_t, _where="construct", **kw)
    scale = float(np.abs(ys).max() + yunit) * float(xs_eff[-1] - xs_eff[0])
    # positions are exact inputs (the reference uses the same rounded values); the spacing differences x[i+1]-x[i] carry a relative
    # rounding of at most eps*|x|max/hmin, amplified like every other perturbation of the spline system by ratio^2
    tolrel = rel_tolerance(method, bc, case["dtype"], xs_eff, ratio, unit)
    tol = tolrel * scale
    if row_disparity(method, bc, xs_eff) * EPS[case["dtype"]] * ratio ** 2 > 1e-3 and unit != 1.0:
        labels.append("rowscale=allowance>1e-3")
    if unit != 1.0 and ROWS_EQUILIBRATED:
        # the reference is evaluated on the SAME grid expressed in a unit of about its mean spacing (division by a power of two is
        # exact, and the running integral is homogeneous of degree 1 in the unit of x): SciPy's own slope system has unit boundary
        # rows next to rows ~dx and loses accuracy in other units (1e-13 relative at unit 1e6, measured against exact rational
        # arithmetic, where xitorch has 2e-16)
        s2 = 2.0 ** round(float(np.log2(np.diff(xs_eff).mean())))
        ref = np.moveaxis(ref_cumsum(method, bc, xs_eff / s2, ys) * s2, -1, pos)
    else:
        ref = np.moveaxis(ref_cumsum(method, bc, xs_eff, ys), -1, pos)      # back to y's layout
    rel = case["rel"]
    nontrivial = n >= 3 and not case["yconst"]

    def call_cumsum(y):
        return sq.cumsum(y) if (dim == -1 and case["omit_dim"]) else sq.cumsum(y, dim=dim)

    def call_integrate(y, keepdim):
        if dim == -1 and case["omit_dim"]:
            return sq.integrate(y, keepdim=keepdim)
        return sq.integrate(y, dim=dim, keepdim=keepdim)

    if rel == "reject":
        bad_shape = list(shape)
        bad_shape[pos] = n + case["bad"] if n + case["bad"] >= 1 else n + 1
        ybad = torch.zeros(bad_shape, dtype=dtype)
        for nm, fn in (("cumsum", lambda: call_cumsum(ybad)), ("integrate", lambda: call_integrate(ybad, False))):
            try:
                fn()
            except RuntimeError:
                continue
            return violation("not_rejected", "%s accepted y with length %d along the integrated dimension (x has %d)" % (nm, bad_shape[pos], n), labels)
        return ok(labels, True)

    cs = xt_call(call_cumsum, y_t, _where="cumsum")
    if tuple(cs.shape) != tuple(shape):
        return violation("cumsum_shape", "cumsum shape %s for y of shape %s (dim=%d)" % (tuple(cs.shape), tuple(shape), dim), labels)
    csn = cs.double().numpy()
    err = np.abs(csn - ref).max()
    if err > tol:
        i = np.unravel_index(np.argmax(np.abs(csn - ref)), ref.shape)
        return violation("cumsum_value", "cumsum%s=%r, reference %r (err %.2e tol %.2e) n=%d" % (list(i), csn[i], ref[i], err, tol, n), labels)
    first = np.take(csn, 0, axis=pos)
    if np.abs(first).max() != 0.0:
        return violation("cumsum_first", "first cumsum entry is %r, not exactly 0" % np.abs(first).max(), labels)
    for keepdim in (False, True):
        it = xt_call(call_integrate, y_t, keepdim, _where="integrate")
        want = np.take(ref, [n - 1], axis=pos) if keepdim else np.take(ref, n - 1, axis=pos)
        if tuple(it.shape) != want.shape:
            return violation("integrate_shape", "integrate(keepdim=%s, dim=%d) of y%s has shape %s, expected %s" % (
                keepdim, dim, tuple(shape), tuple(it.shape), want.shape), labels)
        if np.abs(it.double().numpy() - want).max() > tol:
            return violation("integrate_value", "integrate(keepdim=%s, dim=%d) differs from the reference by %.2e" % (
                keepdim, dim, np.abs(it.double().numpy() - want).max()), labels)
        lastcs = np.take(csn, [n - 1], axis=pos) if keepdim else np.take(csn, n - 1, axis=pos)
        if np.abs(it.double().numpy() - lastcs).max() > (1e-12 if dtype == torch.float64 else 1e-4) * scale * ratio:
            return violation("last_vs_integrate", "last cumsum entry and integrate differ by %.2e" % np.abs(it.double().numpy() - lastcs).max(), labels)
    if rel == "units":
        # homogeneity in the unit of x: the same samples on the grid 2^k x (exact rescaling) integrate to 2^k times the result
        k = case["pow2x"] if unit < 1.0 else -case["pow2x"]
        x2 = x_t * (2.0 ** k)
        sq2 = xt_call(SQuad, x2, _where="construct-rescaled", **kw)
        cs2 = xt_call(lambda: sq2.cumsum(y_t) if (dim == -1 and case["omit_dim"]) else sq2.cumsum(y_t, dim=dim), _where="cumsum-rescaled")
        tol2 = (tolrel + rel_tolerance(method, bc, case["dtype"], x2.double().numpy(), ratio, unit * 2.0 ** k)) * scale
        d = np.abs(cs2.double().numpy() / 2.0 ** k - csn)
        if d.max() > tol2:
            i = np.unravel_index(np.argmax(d), d.shape)
            return violation("units", "cumsum on the grid 2^%d*x is not 2^%d times cumsum on x: entry %s is %r vs %r after rescaling back "
                             "(diff %.2e, tol %.2e; spacing %.3g..%.3g)" % (k, k, list(i), csn[i], cs2.double().numpy()[i] / 2.0 ** k, d.max(), tol2,
                                                                            np.diff(xs_eff).min(), np.diff(xs_eff).max()), labels)
    if rel == "linear":
        y2 = (torch.randn(shape, generator=g, dtype=torch.float64) * yunit).to(dtype)
        if method == "cspline" and bc == "periodic":
            return ok(labels, nontrivial)
        a, b = 2.0, -0.5
        lhs = call_cumsum(a * y_t + b * y2).double().numpy()
        rhs = a * csn + b * call_cumsum(y2).double().numpy()
        if np.abs(lhs - rhs).max() > (1e-12 if dtype == torch.float64 else 1e-4) * scale * ratio * 4:
            return violation("linearity", "cumsum is not linear in y (defect %.2e)" % np.abs(lhs - rhs).max(), labels)
    return ok(labels, nontrivial)


@st.composite
def case_st(draw, tier="quick"):
    method = draw(st.sampled_from(["trapz", "simpson", "cspline", "cspline"]))
    bc = draw(st.sampled_from(["natural", "natural", "clamped", "not-a-knot", "periodic"])) if method == "cspline" else "natural"
    nmin = 2
    if method == "cspline":
        nmin = 4 if bc == "not-a-knot" else 3
    n = draw(st.one_of(st.integers(nmin, 7), st.integers(nmin, 14 if tier == "quick" else 40)))
    incs = [draw(st.sampled_from([1.0, 1.0, 1.0, 0.5, 2.0, 0.1, 3.0, 10.0])) for _ in range(n - 1)]
    other = draw(st.lists(st.integers(1, 3), max_size=3))
    dtype = draw(st.sampled_from(["f64", "f64", "f64", "f32"]))
    # grids far from the origin relative to their spacing, and grids in tiny units (float64 only: in float32 such grids are not
    # representable to useful accuracy)
    x0 = draw(st.sampled_from([0.0, -5.0, 2.5] + ([1e4, -3e5] if dtype == "f64" else [])))
    xscale = draw(st.sampled_from([1.0, 0.01, 30.0] + ([1e-8] if dtype == "f64" and x0 in (0.0, -5.0, 2.5) else [])))
    if xscale == 1e-8:
        x0 = x0 * 1e-8
    # the same grid in other units of x (both dtypes; near offsets, so that float32 keeps the knots apart), y in other units
    near = x0 in (0.0, -5.0, 2.5) and xscale in (1.0, 0.01, 30.0)
    unit = draw(st.sampled_from([1.0, 1.0, 1.0, 1e-8, 1e-4, 1e3, 1e5, 1e6])) if near else 1.0
    return {"method": method, "bc": bc, "incs": incs, "xscale": xscale, "unit": unit, "yunit": draw(st.sampled_from([1.0, 1.0, 1e-5, 1e3])),
            "pow2x": draw(st.sampled_from([10, 20])),
            "mspell": draw(st.sampled_from(["explicit", "explicit", "none", "omitted"])), "bcspell": draw(st.sampled_from(["explicit", "omitted"])),
            "x0": x0, "other": other, "pos": draw(st.integers(0, 3)),
            "posdim": draw(st.booleans()), "omit_dim": draw(st.booleans()), "dtype": dtype,
            "rel": draw(st.sampled_from(["value", "value", "linear", "reject", "units"])), "bad": draw(st.sampled_from([1, -1, 2, -2])),
            "yconst": draw(st.sampled_from([False, False, False, True])), "seed": draw(st.integers(0, 2 ** 31 - 1))}


def tasks(tier):
    return [Task("squad", strategy=case_st(tier), run=run_case, examples={"quick": 1600, "thorough": 30000})]
