"""C14 — Interp1D evaluates the declared interpolant of the samples.

Oracle: scipy.interpolate.CubicSpline(bc_type) / numpy.interp on the same (sorted) grid; the interpolation matrix
extracted from unit vectors gives d/dy; CubicSpline derivative gives d/dxq; extrapolation modes re-derived here.
Task "history": call histories on ONE Interp1D object (different y tensors, the same tensor updated in place, with/without grad,
alternating query sets); every call is checked against the reference for the data of that call and against a fresh object.
"""
from __future__ import annotations

import numpy as np
import torch
from hypothesis import strategies as st
from scipy.interpolate import CubicSpline

from pbt import gen
from pbt.harness import Task, ok, violation, discard, xt_call

PID = "C14"
RULE = ("method in {linear, cspline} x bc in {not-a-knot(>=4 knots), natural, clamped, periodic} x extrap in {default, nan, constant (float/int/0-d/1-element tensor, incl. exactly 0), "
        "callable, bound, mirror, periodic} x grid (3..40 knots, spacing ratio <=100, optionally shuffled) x queries (at knots, at the "
        "range ends, inside, outside; 1..3n of them, shuffled) x y batch shape x y at init/call x reuse of one object for several calls; "
        "the caller's x, y, xq must be bitwise unchanged by a call. "
        "Units: the whole grid and the queries are multiplied by xunit in {1, 1e-9, 1e-6, 1e-3, 1e3, 1e6} and the samples by yunit in {1, 1e-6, 1e4} "
        "(reference on the rescaled data, every tolerance relative to yunit / the range length / the smallest spacing); relation 'units': the same data "
        "with x*2^k, y*2^m (exact) must give the same inside/outside classification, NaN pattern and values*2^m. Queries 1..4 ulps outside the range "
        "(the inside/outside decision is exact). Documented defaults spelled explicitly / as None / omitted (method None == cspline, bc_type None == "
        "not-a-knot, extrap None == default of the bc) and compared with the reference for the REQUESTED options. Gradients (rel grad, and in histories): "
        "d/dy and d/dxq at ALL queries including those outside the range, for every extrapolation mode: mapped modes = derivative at the image position "
        "times the orientation of the image (periodic +1, mirror flips with each reflection, bound 0), constant 0, callable 2 (z -> 2z+1), NaN outputs "
        "left out of the loss (gradient 0). "
        "history: ONE Interp1D object (x sorted / sorted with assume_sorted=True / shuffled; y at init or at call) and 2..4 (thorough 7) calls, each "
        "with y in {new tensor (any batch shape, contiguous or a strided view of a larger tensor), the same tensor again, the same tensor updated "
        "in place by copy_/add_/mul_/element assignment} x requires_grad on/off x torch.no_grad() on/off, and queries in {new, same tensor, same "
        "tensor updated in place} x few/many (both formulas) x inside/outside x requires_grad; every call is compared with the SciPy/NumPy "
        "reference for the values y holds at that call, with a freshly constructed Interp1D, its d/dy and d/dxq with the reference, and x, y "
        "(and the tensor y is a view of), xq must be bitwise unchanged. "
        "Non-trivial = at least one query strictly between knots (history: and at least two calls on the object); distinct by canonical case.")
ASSUMPTIONS = [
    "float64; x does not require grad (the statement claims differentiability in y and xq only)",
    "units: tolerances are 1e-10*ratio^2*(max|y|+yunit) for values and 1e-8*ratio^3*(max|y|+yunit)*|W|/hmin for d/dxq (hmin = smallest spacing in the "
    "units of the case), times 1+3|xq|max/L for outside queries (rounding of the image position); nothing absolute",
    "KNOWN WEAKNESS allowed for (reported, not repaired): clamped / not-a-knot splines on grids with unit != 1 get the allowance "
    "max(1, 1e-4*row-scale disparity of xitorch's slope system) because its boundary rows are not scaled like the interior rows "
    "(error eps*ratio^2*disparity measured on the unchanged tree); natural / periodic / linear have no allowance",
    "outside-query derivatives are not compared where the extension has only one-sided derivatives (images within 1e-9 range lengths of a "
    "range end; knots for the linear method)",
    "not-a-knot needs >= 4 knots (with 3 the two end conditions coincide and the spline is not unique)",
    "tolerance 1e-10 * ratio^2 * max|y| (spline system conditioning grows with the spacing ratio)",
    "batched y with an unbatched 1-D x (the docs restrict batched x/xq to the no-extrapolation case)",
    "history: a y passed at call time to an object constructed with y is ignored (documented in Interp1D.__call__); a y given at "
    "construction is never modified by the caller afterwards (the docs do not say whether the object snapshots it)",
    "history: where y[0]==y[-1] is required (periodic bc / periodic extrapolation) d/dy is only compared along directions that keep it "
    "(interior unit vectors and e_0+e_{n-1}); re-used object vs fresh object agree within 1e-13*ratio^2*max|y| (same arithmetic)",
]
LEVEL_TEXT = ("Differential exploration against SciPy's spline/NumPy's interp over generated grids, boundary conditions, query sets "
              "and call histories, including both internal evaluation formulas and every extrapolation mode.")
LEVEL_NOTE = "trusts scipy.interpolate.CubicSpline and numpy.interp as references"
TECHNIQUE = ("Hypothesis property-based testing: differential oracle (SciPy/NumPy) + metamorphic relations (permutation, few-vs-many queries) "
             "+ generated call histories on one object (model = the reference applied to the data of each call)")

DT = torch.float64


EPS = 2.220446049250313e-16
MAPPED = ("mirror", "periodic", "bound")


def make_grid(case):
    """knots = (partial sums of incs * xscale + x0) * unit: `unit` re-expresses the same grid in other units of x"""
    incs = np.array(case["incs"], dtype=np.float64)
    x = (np.concatenate([[0.0], np.cumsum(incs)]) * case["xscale"] + case["x0"]) * case.get("unit", 1.0)
    return x


def hmin_of(case):
    return min(case["incs"]) * case["xscale"] * case.get("unit", 1.0)


ROWS_EQUILIBRATED = False     # D56 is repaired in /repo, but the SciPy reference solves a system with the same row-scale disparity (measured: 1e-13 relative at unit 1e6 where repaired xitorch has 2e-16 against exact rational arithmetic), so the allowance stays as the accuracy of the REFERENCE


def rowscale(case, method, bc, xs, unit=None):
    """allowance >= 1 multiplying the tolerances of clamped / not-a-knot splines on grids in units other than 1.
    KNOWN WEAKNESS of the unchanged tree (reported): in the slope system the clamped rows are unit rows and the not-a-knot rows ~1/dx^2
    while all other rows are ~1/dx; Gaussian elimination with partial pivoting is only normwise stable, so the error grows with the
    disparity of the row scales, eps*ratio^2*disparity (measured; it disappears when the boundary rows are rescaled).  1e-4*disparity
    relative to the 1e-10 base tolerance = 50*eps*disparity.  Natural/periodic/linear: 1 (homogeneous in the unit of x)."""
    unit = case.get("unit", 1.0) if unit is None else unit
    if method != "cspline" or bc not in ("clamped", "not-a-knot") or unit == 1.0 or ROWS_EQUILIBRATED:
        return 1.0
    d = np.diff(xs)
    dmin, dmax = float(d.min()), float(d.max())
    if bc == "clamped":
        disp = max(1.0 / dmin, 1.0) * max(dmax, 1.0)
    else:
        db = [float(v) for v in (d[0], d[1], d[-2], d[-1])]
        disp = max([1.0] + [b * b / dmin for b in db] + [dmax / (b * b) for b in db])
    return max(1.0, 1e-4 * disp)


def spell_kwargs(case, method, bc, extrap, extrap_value):
    """constructor keywords for the REQUESTED options; documented defaults are spelled explicitly, as None, or left out:
    method None/omitted == "cspline", bc_type None/omitted == "not-a-knot", extrap None/omitted == the default of the bc"""
    kw = {}
    msp = case.get("mspell", "explicit") if method == "cspline" else "explicit"
    if msp == "explicit":
        kw["method"] = method
    elif msp == "none":
        kw["method"] = None
    if method == "cspline":
        bsp = case.get("bcspell", "explicit") if bc == "not-a-knot" else "explicit"
        if bsp == "explicit":
            kw["bc_type"] = bc
        elif bsp == "none":
            kw["bc_type"] = None
    if extrap != "default":
        kw["extrap"] = extrap_value
    elif case.get("exspell", "omitted") == "none":
        kw["extrap"] = None
    return kw


def spell_label(case, method, bc, extrap):
    parts = []
    if method == "cspline" and case.get("mspell", "explicit") != "explicit":
        parts.append("method-" + case["mspell"])
    if method == "cspline" and bc == "not-a-knot" and case.get("bcspell", "explicit") != "explicit":
        parts.append("bc-" + case["bcspell"])
    if extrap == "default":
        parts.append("extrap-" + case.get("exspell", "omitted"))
    return "spelling=" + ("+".join(parts) if parts else "explicit")


def ref_interp(method, bc, xs, ys, xq, nu=0):
    """reference values (or derivative nu=1) at points inside the range; ys: (..., n)"""
    if method == "linear":
        flat = ys.reshape(-1, ys.shape[-1])
        if nu == 0:
            out = np.stack([np.interp(xq, xs, row) for row in flat])
        else:
            idx = np.clip(np.searchsorted(xs, xq, side="left"), 1, len(xs) - 1)
            out = np.stack([(row[idx] - row[idx - 1]) / (xs[idx] - xs[idx - 1]) for row in flat])
        return out.reshape(*ys.shape[:-1], len(xq))
    cs = CubicSpline(xs, ys, axis=-1, bc_type=bc)
    return cs(xq, nu)


def map_outside(xq, xmin, xmax, mode):
    L = xmax - xmin
    p = (xq - xmin) / L
    if mode == "periodic":
        p = p - np.floor(p)
    elif mode == "mirror":
        p = np.abs(p)
        p = p - 2 * np.floor(p / 2)
        p = np.where(p > 1, 2 - p, p)
    elif mode == "bound":
        p = np.clip(p, 0.0, 1.0)
    return xmin + p * L


def orientation(xq, xmin, xmax, mode):
    """d(image position)/d(xq) of the documented mapping, and a mask of the queries sitting (within 1e-9 range lengths) on a point
    where the mapping has a kink/jump (range ends and their images), where the extended interpolant has only one-sided derivatives"""
    L = xmax - xmin
    p = (xq - xmin) / L
    outside = (xq < xmin) | (xq > xmax)
    if mode == "periodic":
        o = np.ones_like(p)
    elif mode == "mirror":
        k = np.floor(np.abs(p))
        o = np.where(p < 0, -1.0, 1.0) * np.where(k % 2 == 1, -1.0, 1.0)
    elif mode == "bound":
        o = np.zeros_like(p)
    else:
        raise ValueError(mode)
    kink = outside & (np.abs(p - np.round(p)) < 1e-9)
    return np.where(outside, o, 1.0), kink


def ref_dxq(method, sbc, eff_extrap, xs, ys, xq, pos, inside):
    """element-wise derivative d out[..., q] / d xq[q] of the documented extended interpolant, and the mask of the queries where
    that derivative is two-sided.  Inside: the interpolant's own derivative.  Outside: mapped modes -> derivative at the image
    position times the orientation of the image (periodic +1, mirror flips with each reflection, bound 0); constant -> 0;
    callable z -> 2z+1 -> 2; nan -> not part of the loss, hence 0."""
    d = ref_interp(method, sbc, xs, ys, pos, nu=1)
    valid = np.ones(len(xq), dtype=bool)
    if method == "linear":
        valid &= ~np.isin(pos, xs)                       # kinks of the piecewise linear interpolant
    if not inside.all():
        if eff_extrap in MAPPED:
            o, kink = orientation(xq, xs[0], xs[-1], eff_extrap)
            d = d * o
            if eff_extrap == "bound":
                valid |= ~inside                          # constant continuation: derivative 0 whatever the interpolant does
            else:
                valid &= ~kink
        else:
            d = d.copy()
            d[..., ~inside] = {"nan": 0.0, "const": 0.0, "callable": 2.0}[eff_extrap]
            valid |= ~inside
    return d, valid


def ref_dy(method, sbc, eff_extrap, xs, pos, inside, tied):
    """(m, nq) matrix: response of the documented value at each query to the directions E_j of y (sorted order), and a function
    folding a gradient w.r.t. y (sorted order) onto these directions.  With y[0]==y[-1] required only directions that keep it are
    defined: interior unit vectors and e_0+e_{n-1}.  Outside queries of the value-type modes (nan/constant/callable) do not depend on y."""
    n = len(xs)
    E = np.eye(n)
    if tied:
        E[0, -1] = 1.0
        E = E[:-1]
    Lmat = ref_interp(method, sbc, xs, E, pos)
    if eff_extrap not in MAPPED:
        Lmat = Lmat.copy()
        Lmat[:, ~inside] = 0.0

    def fold(gy_sorted):
        if tied:
            return np.concatenate([gy_sorted[..., :1] + gy_sorted[..., -1:], gy_sorted[..., 1:-1]], axis=-1)
        return gy_sorted
    return Lmat, fold


def same_bits(t, before):
    """bitwise equality of two float64 tensors of the same shape (no NaN / signed-zero leniency)"""
    return tuple(t.shape) == tuple(before.shape) and \
        torch.equal(t.detach().contiguous().view(torch.int64), before.detach().contiguous().view(torch.int64))


def run_case(case):
    from xitorch.interpolate import Interp1D
    torch.manual_seed(0)
    g = gen.seeded(case["seed"])
    method, bc, extrap = case["method"], case["bc"], case["extrap"]
    xs = make_grid(case)
    n = len(xs)
    ratio = max(case["incs"]) / min(case["incs"])
    batch = tuple(case["batch"])
    yunit = float(case.get("yunit", 1.0))
    ys = torch.randn((*batch, n), generator=g, dtype=DT).numpy().copy() * yunit
    eff_extrap = extrap
    if extrap == "default":
        eff_extrap = {"clamped": "mirror", "periodic": "periodic"}.get(bc, "nan") if method == "cspline" else "nan"
    if bc == "periodic" or eff_extrap == "periodic":
        ys[..., -1] = ys[..., 0]
    perm = torch.randperm(n, generator=g).numpy() if case["shuffle"] else np.arange(n)
    x_t = torch.tensor(xs[perm], dtype=DT)
    y_t = torch.tensor(ys[..., perm], dtype=DT)
    xmin, xmax = xs[0], xs[-1]
    L = xmax - xmin

    # queries
    nq = case["nq"]
    u = torch.rand((nq,), generator=g, dtype=DT).numpy()
    kinds = case["qkinds"]
    xq = draw_queries(kinds, nq, u, xs)
    inside = (xq >= xmin) & (xq <= xmax)
    has_out = not inside.all()
    labels = ["method=" + method, "bc=" + (bc if method == "cspline" else "-"), "extrap=" + str(eff_extrap if has_out else "none-needed"),
              "n=%s" % ("3" if n == 3 else "4-8" if n <= 8 else "9+"), "formula=" + ("many" if nq > n else "few"),
              "yat=" + case["yat"], "shuffled" if case["shuffle"] else "sorted", "batch=%d" % len(batch),
              "xunit=%g" % case.get("unit", 1.0), "yunit=%g" % yunit, spell_label(case, method, bc, extrap)]
    if any(k.startswith("ulp") for k in kinds[:nq]):
        labels.append("query=ulps-outside")

    const = float(case.get("const", 1.75))
    cform = case.get("constform", "float")
    const_arg = {"float": float(const), "int": int(const), "tensor": torch.tensor(const, dtype=DT), "tensor1": torch.tensor([const], dtype=DT)}[cform]
    if cform == "int":
        const = float(int(const))
    seen_by_callable = []

    def extrap_fcn(z):
        # documented: "apply this extrapolation function with the extrapolated positions"
        seen_by_callable.append(z.detach().clone())
        return 2.0 * z + 1.0
    kw = spell_kwargs(case, method, bc, extrap, {"nan": "nan", "const": const_arg, "callable": extrap_fcn, "bound": "bound",
                                                 "mirror": "mirror", "periodic": "periodic"}.get(extrap))
    xq_t = torch.tensor(xq, dtype=DT)

    def evaluate(yat, xq_tensor, y_tensor=y_t, x_tensor=x_t):
        if yat == "init":
            return Interp1D(x_tensor, y_tensor, **kw)(xq_tensor)
        return Interp1D(x_tensor, **kw)(xq_tensor, y_tensor)

    snap = [(nm, t, t.clone()) for nm, t in (("x", x_t), ("y", y_t), ("xq", xq_t))]
    got = xt_call(evaluate, case["yat"], xq_t, _where="interp")
    for nm, t, before in snap:
        if not same_bits(t, before):
            return violation("input_modified", "the caller's %s tensor was modified by the call (extrap=%s)" % (nm, extrap), labels)
    if tuple(got.shape) != (*batch, nq):
        return violation("shape", "result shape %s, expected %s" % (tuple(got.shape), (*batch, nq)), labels)
    if extrap == "callable":
        for z in seen_by_callable:
            zz = z.reshape(-1).numpy()
            if ((zz >= xmin) & (zz <= xmax)).any():
                return violation("callable_args", "the extrapolation callable was applied to positions inside the sample range [%r, %r]: %r" % (
                    xmin, xmax, zz[(zz >= xmin) & (zz <= xmax)][:4].tolist()), labels)
        if has_out and not seen_by_callable:
            return violation("callable_not_called", "queries outside the range but the extrapolation callable was never called", labels)
        del seen_by_callable[:]

    # reference
    sbc = bc if method == "cspline" else None
    xq_eff = xq.copy()
    ref = np.empty((*batch, nq))
    if has_out and eff_extrap in ("mirror", "periodic", "bound"):
        xq_eff[~inside] = map_outside(xq[~inside], xmin, xmax, eff_extrap)
        ref[...] = ref_interp(method, sbc, xs, ys, xq_eff)
    else:
        ref[..., inside] = ref_interp(method, sbc, xs, ys, xq[inside]) if inside.any() else 0.0
        if has_out:
            if eff_extrap == "nan":
                ref[..., ~inside] = np.nan
            elif eff_extrap == "const":
                ref[..., ~inside] = const
            elif eff_extrap == "callable":
                ref[..., ~inside] = 2.0 * xq[~inside] + 1.0
    # every tolerance is relative to the magnitudes of the case: yunit for values, the range length L / smallest spacing for positions
    ymax = float(np.abs(ys).max()) + yunit
    rs = rowscale(case, method, bc, xs)
    if rs > 1e4:
        labels.append("rowscale-allowance>1e4")
    # slope bound for positions perturbed by the extrapolation mapping
    tol = 1e-10 * ratio ** 2 * ymax * (1 + (3 * np.abs(xq).max() / L if has_out else 0)) * rs
    if has_out and eff_extrap == "callable":
        tol = tol + 4 * EPS * np.where(inside, 0.0, np.abs(2.0 * xq + 1.0))        # the callable's own arithmetic (values are not in y units)
    gotn = got.detach().numpy()
    nanmask = np.isnan(ref)
    if (np.isnan(gotn) != nanmask).any():
        return violation("nan_pattern", "NaN pattern differs: got NaN at %s, expected at %s" % (
            np.argwhere(np.isnan(gotn))[:4].tolist(), np.argwhere(nanmask)[:4].tolist()), labels)
    err = np.abs(np.where(nanmask, 0.0, gotn - ref))
    if (err > tol).any():
        i = np.unravel_index(np.argmax(err - tol), err.shape)
        return violation("value", "xq=%r (inside=%s, range [%r, %r]): got %r, reference %r (err %.2e, tol %.2e); n=%d bc=%s extrap=%s kw=%s" % (
            xq[i[-1]], bool(inside[i[-1]]), xmin, xmax, gotn[i], ref[i], err[i], float(np.max(tol)), n, bc, eff_extrap,
            sorted((k, str(v)) for k, v in kw.items() if k != "extrap")), labels)
    tol = float(np.max(tol))

    # samples reproduced at the knots (tight)
    atk = xt_call(evaluate, case["yat"], torch.tensor(xs, dtype=DT), _where="interp@knots").detach().numpy()
    if np.abs(atk - ys).max() > 1e-11 * ratio * ymax * rs:
        return violation("knots", "values at the sample positions differ from the samples by %.2e" % np.abs(atk - ys).max(), labels)

    rel = case["rel"]
    if rel == "init_vs_call":
        other = xt_call(evaluate, "call" if case["yat"] == "init" else "init", xq_t, _where="interp").detach().numpy()
        if not np.allclose(other, gotn, rtol=0, atol=1e-13 * ymax * ratio, equal_nan=True):
            return violation("init_vs_call", "y at construction and y at call give different results (max diff %.2e)" % np.nanmax(np.abs(other - gotn)), labels)
    elif rel == "sorted_vs_shuffled":
        xs_t = torch.tensor(xs, dtype=DT)
        ys_t = torch.tensor(ys, dtype=DT)
        other = (Interp1D(xs_t, ys_t, **kw)(xq_t) if case["yat"] == "init" else Interp1D(xs_t, **kw)(xq_t, ys_t)).detach().numpy()
        if not np.allclose(other, gotn, rtol=0, atol=1e-13 * ymax * ratio, equal_nan=True):
            return violation("sample_order", "results depend on the order of the samples", labels)
    elif rel == "query_perm":
        qp = torch.randperm(nq, generator=g)
        other = xt_call(evaluate, case["yat"], xq_t[qp], _where="interp").detach().numpy()
        if not np.allclose(other, gotn[..., qp.numpy()], rtol=0, atol=1e-13 * ymax * ratio, equal_nan=True):
            return violation("query_order", "permuting the queries does not permute the results", labels)
    elif rel == "few_vs_many":
        # one query evaluated alone (few-queries formula) vs among 3n+1 queries (many-queries formula)
        j = int(u[0] * nq) % nq
        if inside[j]:
            alone = xt_call(evaluate, case["yat"], xq_t[j:j + 1], _where="interp").detach().numpy()[..., 0]
            pad = torch.tensor(np.concatenate([[xq[j]], xmin + L * torch.rand((3 * n + 1,), generator=g, dtype=DT).numpy()]), dtype=DT)
            many = xt_call(evaluate, case["yat"], pad, _where="interp").detach().numpy()[..., 0]
            if np.abs(alone - many).max() > 1e-12 * ratio ** 2 * ymax * rs:
                return violation("few_vs_many", "the two evaluation formulas disagree at xq=%r: %r vs %r" % (xq[j], alone, many), labels)
    elif rel == "reuse":
        # one object, several calls with different y batch shapes
        obj = Interp1D(x_t, **kw)
        for b2 in case["reuse_batches"]:
            y2 = torch.randn((*b2, n), generator=g, dtype=DT).numpy() * yunit
            if bc == "periodic" or eff_extrap == "periodic":
                y2[..., -1] = y2[..., 0]
            r2 = xt_call(obj, xq_t[inside], torch.tensor(y2[..., perm], dtype=DT), _where="interp-reuse")
            if not inside.any():
                break
            want = ref_interp(method, sbc, xs, y2, xq[inside])
            if tuple(r2.shape) != want.shape:
                return violation("reuse_shape", "re-used object: result shape %s, expected %s" % (tuple(r2.shape), want.shape), labels)
            if np.abs(r2.detach().numpy() - want).max() > tol:
                return violation("reuse_value", "re-used object gives wrong values for a later y (err %.2e)" % np.abs(r2.detach().numpy() - want).max(), labels)
    elif rel == "units":
        # the interpolant is homogeneous in the unit of x and linear in y: the same samples and queries expressed in other units
        # (x -> 2^k x, y -> 2^m y; powers of two, so the rescaling itself is exact) give the same inside/outside classification,
        # the same NaN pattern and the same values times 2^m
        sx, sy = 2.0 ** case["pow2x"], 2.0 ** case["pow2y"]
        if extrap == "callable":
            # a callable acts on positions in the caller's units; express it in the new units as well
            kw["extrap"] = lambda z: sy * extrap_fcn(z / sx)
        elif extrap == "const":
            kw["extrap"] = const_arg * sy
        other = xt_call(evaluate, case["yat"], xq_t * sx, y_t * sy, x_t * sx, _where="interp-rescaled").detach().numpy() / sy
        if (np.isnan(other) != nanmask).any():
            j = int(np.argwhere(np.isnan(other) != nanmask)[0][-1])
            return violation("units_nan_pattern", "the same samples/queries with x multiplied by 2^%d: query %r (inside=%s, range [%r, %r]) "
                             "changes between NaN and a number" % (case["pow2x"], xq[j], bool(inside[j]), xmin, xmax), labels)
        d = np.abs(np.where(nanmask, 0.0, other - gotn))
        tol_u = tol * (1 + rowscale(case, method, bc, xs * sx, unit=case.get("unit", 1.0) * sx) / rs)
        if (d > tol_u).any():
            i = np.unravel_index(np.argmax(d), d.shape)
            return violation("units_value", "x -> 2^%d x, y -> 2^%d y: value at query %r (inside=%s) is %r in the original units, %r after "
                             "rescaling back (diff %.2e, tol %.2e); extrap=%s" % (case["pow2x"], case["pow2y"], xq[i[-1]], bool(inside[i[-1]]),
                                                                                 gotn[i], other[i], d[i], tol_u, eff_extrap), labels)
    elif rel == "grad":
        # d/dy and d/dxq at ALL queries, inside and outside the range, for every extrapolation mode (NaN outputs are left out of the loss)
        sel = ~nanmask.reshape(-1, nq).any(0)
        if not sel.any():
            return ok(labels, False)
        tied = bc == "periodic" or eff_extrap == "periodic"
        xin = torch.tensor(xq, dtype=DT, requires_grad=True)
        yg = y_t.clone().requires_grad_()
        out = xt_call(evaluate, case["yat"], xin, yg, _where="interp")
        if not out.requires_grad:
            return violation("no_graph", "the result does not require grad although y and xq do", labels)
        W = torch.randn((*batch, int(sel.sum())), generator=g, dtype=DT)
        gy, gx = xt_call(torch.autograd.grad, (out[..., torch.tensor(sel)] * W).sum(), (yg, xin), allow_unused=True, _where="backward")
        Wn = np.zeros((*batch, nq))
        Wn[..., sel] = W.numpy()
        pos = xq_eff if (has_out and eff_extrap in MAPPED) else xq
        # reference d/dy: interpolation matrix from unit vectors (sorted order) at the image positions
        Lmat, fold = ref_dy(method, sbc, eff_extrap, xs, pos, inside, tied)
        gy_ref = np.einsum("...q,jq->...j", Wn, Lmat)
        gyn = fold(np.zeros((*batch, n)) if gy is None else gy.numpy()[..., np.argsort(perm)])
        if np.abs(gyn - gy_ref).max() > 1e-9 * ratio ** 2 * rs * (np.abs(Wn).max() + np.abs(gy_ref).max()) * (1 + (3 * np.abs(xq).max() / L if has_out else 0)):
            return violation("grad_y", "d/dy differs from the interpolation matrix of the reference (err %.2e); extrap=%s" % (
                np.abs(gyn - gy_ref).max(), eff_extrap if has_out else "none-needed"), labels)
        # d/dxq: derivative of the (extended) interpolant; one-sided points are skipped
        d_el, valid = ref_dxq(method, sbc, eff_extrap, xs, ys, xq, pos, inside)
        d_ref = (d_el * Wn).reshape(-1, nq).sum(0)
        gxn = np.zeros(nq) if gx is None else gx.numpy()
        # slope scale ymax*|W|/hmin; the image position of an outside query carries a rounding eps*|xq|, i.e. eps*|xq|/hmin relative
        # to the smallest interval, which enters the derivative through the curvature
        dtol = 1e-8 * ratio ** 3 * rs * (ymax * np.abs(Wn).sum(axis=tuple(range(len(batch)))).max() / hmin_of(case) + np.abs(d_ref).max()) * \
            (1 + (3 * np.abs(xq).max() / L if has_out else 0))
        bad = valid & (np.abs(gxn - d_ref) > dtol)
        if bad.any():
            j = int(np.argmax(np.where(valid, np.abs(gxn - d_ref), 0.0)))
            return violation("grad_xq" if inside[j] else "grad_xq_outside",
                             "d/dxq at xq=%r (inside=%s, range [%r, %r], image position %r) is %r, derivative of the %s is %r (tol %.2e); extrap=%s" % (
                                 xq[j], bool(inside[j]), xmin, xmax, pos[j], gxn[j], "interpolant" if inside[j] else "documented extension",
                                 d_ref[j], dtol, eff_extrap), labels)
        labels = labels + ["grad-at=" + ("inside+outside" if has_out else "inside")]
    between = bool(((xq_eff if has_out and eff_extrap in ("mirror", "periodic", "bound") else xq)[inside | (has_out and eff_extrap in ("mirror", "periodic"))] if True else xq).size) and \
        bool((~np.isin(xq[inside], xs)).any())
    return ok(labels + ["rel=" + rel], between)


# ------------------------------------------------------------------ strategy

UNITS = [1.0, 1.0, 1.0, 1e-9, 1e-6, 1e-3, 1e3, 1e6]
YUNITS = [1.0, 1.0, 1e-6, 1e4]
SPELL = ["explicit", "explicit", "none", "omitted"]


@st.composite
def case_st(draw, tier="quick"):
    method = draw(st.sampled_from(["linear", "cspline", "cspline", "cspline"]))
    bc = draw(st.sampled_from(["not-a-knot", "natural", "clamped", "periodic"])) if method == "cspline" else "natural"
    nmin = 4 if (method == "cspline" and bc == "not-a-knot") else 3
    n = draw(st.one_of(st.integers(nmin, 8), st.integers(nmin, 14 if tier == "quick" else 40)))
    incs = [draw(st.sampled_from([1.0, 1.0, 1.0, 0.5, 2.0, 0.1, 3.0, 10.0])) for _ in range(n - 1)]
    extrap = draw(st.sampled_from(["default", "default", "nan", "const", "callable", "bound", "mirror", "periodic"]))
    qk = ["in", "in", "in", "knot", "lo", "hi", "out_lo", "out_lo", "out_hi", "out_hi", "ulp_lo", "ulp_hi"]
    qkinds = draw(st.lists(st.sampled_from(qk), min_size=1, max_size=6))
    nq = draw(st.one_of(st.integers(1, n), st.integers(n + 1, 3 * n)))
    rel = draw(st.sampled_from(["init_vs_call", "sorted_vs_shuffled", "query_perm", "few_vs_many", "reuse", "units", "grad", "grad", "grad"]))
    if rel == "units":
        qkinds = [k for k in qkinds if not k.startswith("ulp")] or ["out_hi"]      # (an ulp below 0 is subnormal: not exactly rescalable)
    constv = draw(st.sampled_from([1.75, 0.0, 0.0, -2.0, 3.0]))
    return {"const": constv, "constform": draw(st.sampled_from(["float", "float", "int", "tensor", "tensor1"])),
            "method": method, "bc": bc, "extrap": extrap, "incs": incs, "xscale": draw(st.sampled_from([1.0, 0.01, 30.0])),
            "x0": draw(st.sampled_from([0.0, -5.0, 2.5])), "shuffle": draw(st.booleans()), "nq": nq, "qkinds": qkinds,
            "batch": draw(st.sampled_from([[], [], [2], [1], [2, 3], [3, 1]])), "yat": draw(st.sampled_from(["init", "call"])),
            "rel": rel, "reuse_batches": draw(st.lists(st.sampled_from([[], [2], [1], [3], [2, 3]]), min_size=2, max_size=4)),
            # units of x and y (the knots, the queries and the samples are the same numbers times the unit)
            "unit": draw(st.sampled_from(UNITS)), "yunit": draw(st.sampled_from(YUNITS)),
            "pow2x": draw(st.sampled_from([-30, -27, -10, 10, 20])), "pow2y": draw(st.sampled_from([0, -20, 14])),
            # documented defaults spelled explicitly / as None / left out
            "mspell": draw(st.sampled_from(SPELL)), "bcspell": draw(st.sampled_from(SPELL)), "exspell": draw(st.sampled_from(["omitted", "none"])),
            "seed": draw(st.integers(0, 2 ** 31 - 1))}


# ------------------------------------------------------------------ histories on ONE Interp1D object

def draw_queries(kinds, nq, u, xs):
    n, xmin, xmax = len(xs), xs[0], xs[-1]
    L = xmax - xmin
    xq = np.empty(nq)
    for i in range(nq):
        k = kinds[i % len(kinds)]
        if k == "knot":
            xq[i] = xs[int(u[i] * n) % n]
        elif k == "lo":
            xq[i] = xmin
        elif k == "hi":
            xq[i] = xmax
        elif k == "in":
            xq[i] = xmin + u[i] * L
        elif k == "out_lo":
            xq[i] = xmin - (0.05 + 2.4 * u[i]) * L
        elif k == "out_hi":
            xq[i] = xmax + (0.05 + 2.4 * u[i]) * L
        elif k in ("ulp_lo", "ulp_hi"):
            # the nearest representable positions outside the range (1..4 ulps): the inside/outside decision is exact
            v, to = (xmin, -np.inf) if k == "ulp_lo" else (xmax, np.inf)
            for _ in range(1 + int(u[i] * 4) % 4):
                v = np.nextafter(v, to)
            xq[i] = v
    return xq


def reference(method, sbc, eff_extrap, xs, ys, xq, const):
    """reference values for the samples ys (sorted order) -> (ref, inside mask, positions the interpolant is evaluated at,
    mask of the queries whose value depends on y)"""
    xmin, xmax = xs[0], xs[-1]
    inside = (xq >= xmin) & (xq <= xmax)
    pos = xq.copy()
    ref = np.empty((*ys.shape[:-1], len(xq)))
    if eff_extrap in ("mirror", "periodic", "bound"):
        if not inside.all():
            pos[~inside] = map_outside(xq[~inside], xmin, xmax, eff_extrap)
        ref[...] = ref_interp(method, sbc, xs, ys, pos)
        return ref, inside, pos, np.ones_like(inside)
    if inside.any():
        ref[..., inside] = ref_interp(method, sbc, xs, ys, xq[inside])
    if eff_extrap == "nan":
        ref[..., ~inside] = np.nan
    elif eff_extrap == "const":
        ref[..., ~inside] = const
    elif eff_extrap == "callable":
        ref[..., ~inside] = 2.0 * xq[~inside] + 1.0
    else:
        raise ValueError(eff_extrap)
    return ref, inside, pos, inside


def run_history(case):
    """ONE Interp1D object, a generated sequence of calls.  Every call is compared with the reference for the values y holds
    AT THAT CALL and with a freshly constructed Interp1D; the caller's x, y, xq must be bitwise unchanged by every call."""
    from xitorch.interpolate import Interp1D
    torch.manual_seed(0)
    g = gen.seeded(case["seed"])
    method, bc, extrap = case["method"], case["bc"], case["extrap"]
    xs = make_grid(case)
    n = len(xs)
    ratio = max(case["incs"]) / min(case["incs"])
    xmin, xmax = xs[0], xs[-1]
    L = xmax - xmin
    eff_extrap = extrap
    if extrap == "default":
        eff_extrap = {"clamped": "mirror", "periodic": "periodic"}.get(bc, "nan") if method == "cspline" else "nan"
    tied = (method == "cspline" and bc == "periodic") or eff_extrap == "periodic"     # y[0] == y[-1] required
    sbc = bc if method == "cspline" else None
    perm = torch.randperm(n, generator=g).numpy() if case["shuffle"] else np.arange(n)
    inv = np.argsort(perm)              # y_t[..., inv[i]] holds the sample of the i-th smallest position
    x_t = torch.tensor(xs[perm], dtype=DT)
    const = float(case["const"])
    yunit = float(case.get("yunit", 1.0))
    kw = spell_kwargs(case, method, bc, extrap, {"nan": "nan", "const": const, "callable": (lambda z: 2.0 * z + 1.0), "bound": "bound",
                                                 "mirror": "mirror", "periodic": "periodic"}.get(extrap))
    kw_obj = dict(kw)
    if case["assume_sorted"]:
        kw_obj["assume_sorted"] = True

    def sorted_values(batch):
        v = torch.randn((*batch, n), generator=g, dtype=DT).numpy().copy() * yunit
        if tied:
            v[..., -1] = v[..., 0]
        return v

    def new_tensor(batch, layout):
        v = torch.tensor(sorted_values(batch)[..., perm], dtype=DT)
        if layout == "strided":         # a view into a larger tensor of the caller (every other element)
            base = torch.zeros((*batch, 2 * n), dtype=DT)
            base[..., ::2] = v
            return base[..., ::2], base
        return v, None

    y0 = None
    if case["yinit"]:
        y0, _ = new_tensor(tuple(case["batch0"]), "contig")
        obj = xt_call(Interp1D, x_t, y0, _where="construct", **kw_obj)
    else:
        obj = xt_call(Interp1D, x_t, _where="construct", **kw_obj)
    x_before = x_t.clone()

    labels = ["method=" + method, "bc=" + (bc if method == "cspline" else "-"),
              "x=" + ("shuffled" if case["shuffle"] else "sorted+assume_sorted" if case["assume_sorted"] else "sorted"),
              "yat=" + ("init" if case["yinit"] else "call"), "hist-extrap=" + str(eff_extrap),
              "xunit=%g" % case.get("unit", 1.0), "yunit=%g" % yunit, spell_label(case, method, bc, extrap)]
    y = ybase = xq_t = None
    ncalls = 0
    between = False
    seen = set()
    for k, op in enumerate(case["ops"]):
        where = "call %d (%s)" % (k, {kk: op[kk] for kk in ("y", "q", "grad", "nograd")})
        # ---- the y of this call
        ykind = op["y"]
        if case["yinit"]:
            # documented: a y given at call is ignored (with a warning) when y was given at construction
            ycall = new_tensor(tuple(case["batch0"]), "contig")[0] if ykind in ("new", "copy_") else None
            ycur = y0
            seen.add("y=ignored" if ycall is not None else "y=None")
        else:
            if y is None or ykind == "new":
                ykind = "new"
                y, ybase = new_tensor(tuple(op["batch"]), op["layout"])
            elif ykind != "same":
                with torch.no_grad():
                    if ykind == "copy_":
                        y.copy_(torch.tensor(sorted_values(tuple(y.shape[:-1]))[..., perm], dtype=DT))
                    elif ykind == "add_":
                        y.add_(torch.tensor(sorted_values(())[perm], dtype=DT))
                    elif ykind == "mul_":
                        y.mul_(-1.5)
                    elif ykind == "partial":
                        vals = sorted_values(tuple(y.shape[:-1]))
                        idx = sorted({int(i) % n for i in op["idx"]})
                        if tied and (0 in idx or n - 1 in idx):
                            idx = sorted(set(idx) | {0, n - 1})
                        for i in idx:
                            y[..., int(inv[i])] = torch.tensor(vals[..., i], dtype=DT)
                    else:
                        raise ValueError(ykind)
            y.requires_grad_(bool(op["grad"]))
            ycall = ycur = y
            seen.add("y=" + ykind + ("+grad" if op["grad"] else ""))
            if ybase is not None:
                seen.add("y-layout=strided")
        ys_now = ycur.detach().numpy()[..., inv].copy()           # values at this call, sorted order
        batch = tuple(ycur.shape[:-1])
        # ---- the queries of this call
        qkind = op["q"]
        if xq_t is None or qkind == "new":
            nq = op["nq"]
            xq = draw_queries(op["qkinds"], nq, torch.rand((nq,), generator=g, dtype=DT).numpy(), xs)
            xq_t = torch.tensor(xq, dtype=DT)
        elif qkind == "inplace":
            nq = xq_t.shape[-1]
            xq = draw_queries(op["qkinds"], nq, torch.rand((nq,), generator=g, dtype=DT).numpy(), xs)
            with torch.no_grad():
                xq_t.copy_(torch.tensor(xq, dtype=DT))
        nq = xq_t.shape[-1]
        xq = xq_t.detach().numpy().copy()
        xq_t.requires_grad_(bool(op["qgrad"]))
        seen.add("formula=" + ("many" if nq > n else "few"))
        seen.add("q=" + qkind)

        ref, inside, pos, act = reference(method, sbc, eff_extrap, xs, ys_now, xq, const)
        has_out = not inside.all()
        ymax = float(np.abs(ys_now).max()) + yunit
        far = 1 + (3 * np.abs(xq).max() / L if has_out else 0)
        rs = rowscale(case, method, bc, xs)
        tol = 1e-10 * ratio ** 2 * ymax * far * rs
        if has_out and eff_extrap == "callable":
            tol = tol + 4 * EPS * np.where(inside, 0.0, np.abs(2.0 * xq + 1.0))

        snap = [("xq", xq_t, xq_t.detach().clone())]
        if ycall is not None:
            snap.append(("y", ycall, ycall.detach().clone()))
        if ybase is not None and not case["yinit"]:
            snap.append(("the tensor y is a view of", ybase, ybase.detach().clone()))
        if y0 is not None:
            snap.append(("y given at construction", y0, y0.detach().clone()))
        with torch.set_grad_enabled(not op["nograd"]):
            out = xt_call(obj, xq_t, ycall, _where="history-call") if ycall is not None else xt_call(obj, xq_t, _where="history-call")
        ncalls += 1
        for nm, t, before in snap + [("x", x_t, x_before)]:
            if not same_bits(t, before):
                return violation("input_modified", "%s: the caller's %s tensor was modified by the call" % (where, nm), labels)
        if tuple(out.shape) != (*batch, nq):
            return violation("history_shape", "%s: result shape %s, expected %s" % (where, tuple(out.shape), (*batch, nq)), labels)
        outn = out.detach().numpy()
        nanmask = np.isnan(ref)
        if (np.isnan(outn) != nanmask).any():
            return violation("history_nan_pattern", "%s: NaN pattern differs from the reference" % where, labels)
        err = np.abs(np.where(nanmask, 0.0, outn - ref))
        if (err > tol).any():
            i = np.unravel_index(np.argmax(err - tol), err.shape)
            return violation("history_value", "%s on a re-used object: at xq=%r got %r, reference for the values y holds at this call %r "
                             "(err %.2e, tol %.2e)" % (where, xq[i[-1]], outn[i], ref[i], err[i], float(np.max(tol))), labels)
        # a freshly constructed object with the same data (xitorch-vs-xitorch, in addition to the reference)
        fresh = xt_call(lambda: Interp1D(x_t.clone(), ycur.detach().clone(), **kw)(xq_t.detach().clone()), _where="fresh")
        fn = fresh.detach().numpy()
        if (np.isnan(fn) != nanmask).any() or np.abs(np.where(nanmask, 0.0, fn - outn)).max() > 1e-13 * ymax * ratio ** 2:
            return violation("history_vs_fresh", "%s: the re-used object and a freshly constructed Interp1D(x, y) differ by %.2e" % (
                where, np.abs(np.where(nanmask, 0.0, fn - outn)).max()), labels)
        between = between or bool((~np.isin(pos[act], xs)).any())

        # ---- derivatives, when this call records a graph
        want_y = bool(op["grad"]) and not op["nograd"] and not case["yinit"]
        want_q = bool(op["qgrad"]) and not op["nograd"]
        sel = ~nanmask.reshape(-1, nq).any(0)            # outputs that enter the loss: all but the NaN-filled ones
        if (want_y or want_q) and sel.any():
            if not out.requires_grad:
                return violation("history_no_graph", "%s: the result does not require grad although %s does" % (
                    where, "y" if want_y else "xq"), labels)
            W = torch.randn((*batch, int(sel.sum())), generator=g, dtype=DT)
            Wn = np.zeros((*batch, nq))
            Wn[..., sel] = W.numpy()
            wrt = ([ycall] if want_y else []) + ([xq_t] if want_q else [])
            grads = xt_call(torch.autograd.grad, (out[..., torch.tensor(sel)] * W).sum(), wrt, allow_unused=True, _where="history-backward")
            grads = list(grads)
            if want_y:
                gy = grads.pop(0)
                Lmat, fold = ref_dy(method, sbc, eff_extrap, xs, pos, inside, tied)
                gyn = fold(np.zeros((*batch, n)) if gy is None else gy.numpy()[..., inv])          # sorted order
                gy_ref = np.einsum("...q,jq->...j", Wn, Lmat)
                if np.abs(gyn - gy_ref).max() > 1e-9 * ratio ** 2 * rs * (np.abs(Wn).max() + np.abs(gy_ref).max()) * far:
                    return violation("history_grad_y", "%s: d/dy differs from the interpolation matrix of the reference (err %.2e)" % (
                        where, np.abs(gyn - gy_ref).max()), labels)
                seen.add("checked=grad_y")
            if want_q:
                gx = grads.pop(0)
                d_el, valid = ref_dxq(method, sbc, eff_extrap, xs, ys_now, xq, pos, inside)
                d_ref = (d_el * Wn).reshape(-1, nq).sum(0)
                gxn = np.zeros(nq) if gx is None else gx.numpy()
                dtol = 1e-8 * ratio ** 3 * rs * far * (ymax * np.abs(Wn).sum(axis=tuple(range(len(batch)))).max() / hmin_of(case) + np.abs(d_ref).max())
                bad = valid & (np.abs(gxn - d_ref) > dtol)
                if bad.any():
                    j = int(np.argmax(np.where(valid, np.abs(gxn - d_ref), 0.0)))
                    return violation("history_grad_xq" if inside[j] else "history_grad_xq_outside",
                                     "%s: d/dxq at xq=%r (inside=%s, image position %r) is %r, derivative of the %s is %r (tol %.2e)" % (
                                         where, xq[j], bool(inside[j]), pos[j], gxn[j],
                                         "interpolant" if inside[j] else "documented extension (%s)" % eff_extrap, d_ref[j], dtol), labels)
                seen.add("checked=grad_xq" + ("_outside" if has_out else ""))
        del out
    return ok(labels + sorted(seen) + ["calls=%d" % ncalls], ncalls >= 2 and between)


@st.composite
def history_st(draw, tier="quick"):
    method = draw(st.sampled_from(["linear", "cspline", "cspline", "cspline"]))
    bc = draw(st.sampled_from(["not-a-knot", "natural", "clamped", "periodic"])) if method == "cspline" else "natural"
    nmin = 4 if (method == "cspline" and bc == "not-a-knot") else 3
    n = draw(st.integers(nmin, 8 if tier == "quick" else 16))
    incs = [draw(st.sampled_from([1.0, 1.0, 1.0, 0.5, 2.0, 0.1, 3.0, 10.0])) for _ in range(n - 1)]
    extrap = draw(st.sampled_from(["default", "default", "default", "nan", "const", "callable", "bound", "mirror", "periodic"]))
    shuffle = draw(st.booleans())
    qk = ["in", "in", "in", "knot", "lo", "hi", "out_lo", "out_hi", "out_lo", "out_hi", "ulp_lo", "ulp_hi"]
    batches = [[], [], [2], [1], [2, 3]]
    nops = draw(st.integers(2, 4 if tier == "quick" else 7))
    ops = []
    for _ in range(nops):
        ops.append({"y": draw(st.sampled_from(["new", "same", "copy_", "copy_", "add_", "mul_", "partial"])),
                    "batch": draw(st.sampled_from(batches)), "layout": draw(st.sampled_from(["contig", "contig", "strided"])),
                    "grad": draw(st.sampled_from([False, False, True])), "nograd": draw(st.sampled_from([False, False, False, True])),
                    "idx": draw(st.lists(st.integers(0, n - 1), min_size=1, max_size=3)),
                    "q": draw(st.sampled_from(["new", "new", "same", "inplace"])), "qgrad": draw(st.sampled_from([False, False, False, True])),
                    "nq": draw(st.one_of(st.integers(1, n), st.integers(n + 1, 3 * n))),
                    "qkinds": draw(st.lists(st.sampled_from(qk), min_size=1, max_size=4))})
    return {"method": method, "bc": bc, "extrap": extrap, "incs": incs, "xscale": draw(st.sampled_from([1.0, 0.01, 30.0])),
            "x0": draw(st.sampled_from([0.0, -5.0, 2.5])), "shuffle": shuffle,
            "assume_sorted": (not shuffle) and draw(st.booleans()), "yinit": draw(st.sampled_from([False, False, False, True])),
            "batch0": draw(st.sampled_from(batches)), "const": draw(st.sampled_from([1.75, 0.0, -2.0])), "ops": ops,
            "unit": draw(st.sampled_from(UNITS)), "yunit": draw(st.sampled_from(YUNITS)),
            "mspell": draw(st.sampled_from(SPELL)), "bcspell": draw(st.sampled_from(SPELL)), "exspell": draw(st.sampled_from(["omitted", "none"])),
            "seed": draw(st.integers(0, 2 ** 31 - 1))}


def tasks(tier):
    return [Task("interp", strategy=case_st(tier), run=run_case, examples={"quick": 1600, "thorough": 30000}),
            Task("history", strategy=history_st(tier), run=run_history, examples={"quick": 500, "thorough": 8000})]
