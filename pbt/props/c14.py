"""C14 — Interp1D evaluates the declared interpolant of the samples.

Oracle: scipy.interpolate.CubicSpline(bc_type) / numpy.interp on the same (sorted) grid; the interpolation matrix
extracted from unit vectors gives d/dy; CubicSpline derivative gives d/dxq; extrapolation modes re-derived here.
"""
from __future__ import annotations

import numpy as np
import torch
from hypothesis import strategies as st
from scipy.interpolate import CubicSpline

from pbt import gen
from pbt.harness import Task, ok, violation, discard, xt_call

PID = "C14"
RULE = ("method in {linear, cspline} x bc in {not-a-knot(>=4 knots), natural, clamped, periodic} x extrap in {default, nan, constant (float/int/0-d/1-element tensor, incl. exactly 0), "
        "callable, bound, mirror, periodic} x grid (3..40 knots, spacing ratio <=100, optionally shuffled) x queries (at knots, at the "
        "range ends, inside, outside; 1..3n of them, shuffled) x y batch shape x y at init/call x reuse of one object for several calls. "
        "Non-trivial = at least one query strictly between knots; distinct by canonical case.")
ASSUMPTIONS = [
    "float64; x does not require grad (the statement claims differentiability in y and xq only)",
    "not-a-knot needs >= 4 knots (with 3 the two end conditions coincide and the spline is not unique)",
    "tolerance 1e-10 * ratio^2 * max|y| (spline system conditioning grows with the spacing ratio)",
    "batched y with an unbatched 1-D x (the docs restrict batched x/xq to the no-extrapolation case)",
]
LEVEL_TEXT = ("Differential exploration against SciPy's spline/NumPy's interp over generated grids, boundary conditions, query sets "
              "and call histories, including both internal evaluation formulas and every extrapolation mode.")
LEVEL_NOTE = "trusts scipy.interpolate.CubicSpline and numpy.interp as references"
TECHNIQUE = "Hypothesis property-based testing: differential oracle (SciPy/NumPy) + metamorphic relations (permutation, few-vs-many queries)"

DT = torch.float64


def make_grid(case):
    incs = np.array(case["incs"], dtype=np.float64)
    x = np.concatenate([[0.0], np.cumsum(incs)]) * case["xscale"] + case["x0"]
    return x


def ref_interp(method, bc, xs, ys, xq, nu=0):
    """reference values (or derivative nu=1) at points inside the range; ys: (..., n)"""
    if method == "linear":
        flat = ys.reshape(-1, ys.shape[-1])
        if nu == 0:
            out = np.stack([np.interp(xq, xs, row) for row in flat])
        else:
            idx = np.clip(np.searchsorted(xs, xq, side="left"), 1, len(xs) - 1)
            out = np.stack([(row[idx] - row[idx - 1]) / (xs[idx] - xs[idx - 1]) for row in flat])
        return out.reshape(*ys.shape[:-1], len(xq))
    cs = CubicSpline(xs, ys, axis=-1, bc_type=bc)
    return cs(xq, nu)


def map_outside(xq, xmin, xmax, mode):
    L = xmax - xmin
    p = (xq - xmin) / L
    if mode == "periodic":
        p = p - np.floor(p)
    elif mode == "mirror":
        p = np.abs(p)
        p = p - 2 * np.floor(p / 2)
        p = np.where(p > 1, 2 - p, p)
    elif mode == "bound":
        p = np.clip(p, 0.0, 1.0)
    return xmin + p * L


def run_case(case):
    from xitorch.interpolate import Interp1D
    torch.manual_seed(0)
    g = gen.seeded(case["seed"])
    method, bc, extrap = case["method"], case["bc"], case["extrap"]
    xs = make_grid(case)
    n = len(xs)
    ratio = max(case["incs"]) / min(case["incs"])
    batch = tuple(case["batch"])
    ys = torch.randn((*batch, n), generator=g, dtype=DT).numpy().copy()
    eff_extrap = extrap
    if extrap == "default":
        eff_extrap = {"clamped": "mirror", "periodic": "periodic"}.get(bc, "nan") if method == "cspline" else "nan"
    if bc == "periodic" or eff_extrap == "periodic":
        ys[..., -1] = ys[..., 0]
    perm = torch.randperm(n, generator=g).numpy() if case["shuffle"] else np.arange(n)
    x_t = torch.tensor(xs[perm], dtype=DT)
    y_t = torch.tensor(ys[..., perm], dtype=DT)
    xmin, xmax = xs[0], xs[-1]
    L = xmax - xmin

    # queries
    nq = case["nq"]
    u = torch.rand((nq,), generator=g, dtype=DT).numpy()
    kinds = case["qkinds"]
    xq = np.empty(nq)
    for i in range(nq):
        k = kinds[i % len(kinds)]
        if k == "knot":
            xq[i] = xs[int(u[i] * n) % n]
        elif k == "lo":
            xq[i] = xmin
        elif k == "hi":
            xq[i] = xmax
        elif k == "in":
            xq[i] = xmin + u[i] * L
        elif k == "out_lo":
            xq[i] = xmin - (0.05 + 2.4 * u[i]) * L
        elif k == "out_hi":
            xq[i] = xmax + (0.05 + 2.4 * u[i]) * L
    inside = (xq >= xmin) & (xq <= xmax)
    has_out = not inside.all()
    labels = ["method=" + method, "bc=" + (bc if method == "cspline" else "-"), "extrap=" + str(eff_extrap if has_out else "none-needed"),
              "n=%s" % ("3" if n == 3 else "4-8" if n <= 8 else "9+"), "formula=" + ("many" if nq > n else "few"),
              "yat=" + case["yat"], "shuffled" if case["shuffle"] else "sorted", "batch=%d" % len(batch)]

    kw = {"method": method}
    if method == "cspline":
        kw["bc_type"] = bc
    const = float(case.get("const", 1.75))
    cform = case.get("constform", "float")
    const_arg = {"float": float(const), "int": int(const), "tensor": torch.tensor(const, dtype=DT), "tensor1": torch.tensor([const], dtype=DT)}[cform]
    if cform == "int":
        const = float(int(const))
    seen_by_callable = []

    def extrap_fcn(z):
        # documented: "apply this extrapolation function with the extrapolated positions"
        seen_by_callable.append(z.detach().clone())
        return 2.0 * z + 1.0
    if extrap != "default":
        kw["extrap"] = {"nan": "nan", "const": const_arg, "callable": extrap_fcn, "bound": "bound",
                        "mirror": "mirror", "periodic": "periodic", "none": None}[extrap]
    xq_t = torch.tensor(xq, dtype=DT)

    def evaluate(yat, xq_tensor, y_tensor=y_t):
        if yat == "init":
            return Interp1D(x_t, y_tensor, **kw)(xq_tensor)
        return Interp1D(x_t, **kw)(xq_tensor, y_tensor)

    got = xt_call(evaluate, case["yat"], xq_t, _where="interp")
    if tuple(got.shape) != (*batch, nq):
        return violation("shape", "result shape %s, expected %s" % (tuple(got.shape), (*batch, nq)), labels)
    if extrap == "callable":
        for z in seen_by_callable:
            zz = z.reshape(-1).numpy()
            if ((zz >= xmin) & (zz <= xmax)).any():
                return violation("callable_args", "the extrapolation callable was applied to positions inside the sample range [%r, %r]: %r" % (
                    xmin, xmax, zz[(zz >= xmin) & (zz <= xmax)][:4].tolist()), labels)
        if has_out and not seen_by_callable:
            return violation("callable_not_called", "queries outside the range but the extrapolation callable was never called", labels)
        del seen_by_callable[:]

    # reference
    sbc = bc if method == "cspline" else None
    xq_eff = xq.copy()
    ref = np.empty((*batch, nq))
    if has_out and eff_extrap in ("mirror", "periodic", "bound"):
        xq_eff[~inside] = map_outside(xq[~inside], xmin, xmax, eff_extrap)
        ref[...] = ref_interp(method, sbc, xs, ys, xq_eff)
    else:
        ref[..., inside] = ref_interp(method, sbc, xs, ys, xq[inside]) if inside.any() else 0.0
        if has_out:
            if eff_extrap == "nan":
                ref[..., ~inside] = np.nan
            elif eff_extrap == "const":
                ref[..., ~inside] = const
            elif eff_extrap == "callable":
                ref[..., ~inside] = 2.0 * xq[~inside] + 1.0
    ymax = float(np.abs(ys).max()) + 1.0
    # slope bound for positions perturbed by the extrapolation mapping
    tol = 1e-10 * ratio ** 2 * ymax * (1 + (3 * np.abs(xq).max() / L if has_out else 0))
    gotn = got.detach().numpy()
    nanmask = np.isnan(ref)
    if (np.isnan(gotn) != nanmask).any():
        return violation("nan_pattern", "NaN pattern differs: got NaN at %s, expected at %s" % (
            np.argwhere(np.isnan(gotn))[:4].tolist(), np.argwhere(nanmask)[:4].tolist()), labels)
    err = np.abs(np.where(nanmask, 0.0, gotn - ref))
    if err.max() > tol:
        i = np.unravel_index(np.argmax(err), err.shape)
        return violation("value", "xq=%r (inside=%s): got %r, reference %r (err %.2e, tol %.2e); n=%d bc=%s extrap=%s" % (
            xq[i[-1]], bool(inside[i[-1]]), gotn[i], ref[i], err.max(), tol, n, bc, eff_extrap), labels)

    # samples reproduced at the knots (tight)
    atk = xt_call(evaluate, case["yat"], torch.tensor(xs, dtype=DT), _where="interp@knots").detach().numpy()
    if np.abs(atk - ys).max() > 1e-11 * ratio * ymax:
        return violation("knots", "values at the sample positions differ from the samples by %.2e" % np.abs(atk - ys).max(), labels)

    rel = case["rel"]
    if rel == "init_vs_call":
        other = xt_call(evaluate, "call" if case["yat"] == "init" else "init", xq_t, _where="interp").detach().numpy()
        if not np.allclose(other, gotn, rtol=0, atol=1e-13 * ymax * ratio, equal_nan=True):
            return violation("init_vs_call", "y at construction and y at call give different results (max diff %.2e)" % np.nanmax(np.abs(other - gotn)), labels)
    elif rel == "sorted_vs_shuffled":
        xs_t = torch.tensor(xs, dtype=DT)
        ys_t = torch.tensor(ys, dtype=DT)
        other = (Interp1D(xs_t, ys_t, **kw)(xq_t) if case["yat"] == "init" else Interp1D(xs_t, **kw)(xq_t, ys_t)).detach().numpy()
        if not np.allclose(other, gotn, rtol=0, atol=1e-13 * ymax * ratio, equal_nan=True):
            return violation("sample_order", "results depend on the order of the samples", labels)
    elif rel == "query_perm":
        qp = torch.randperm(nq, generator=g)
        other = xt_call(evaluate, case["yat"], xq_t[qp], _where="interp").detach().numpy()
        if not np.allclose(other, gotn[..., qp.numpy()], rtol=0, atol=1e-13 * ymax * ratio, equal_nan=True):
            return violation("query_order", "permuting the queries does not permute the results", labels)
    elif rel == "few_vs_many":
        # one query evaluated alone (few-queries formula) vs among 3n+1 queries (many-queries formula)
        j = int(u[0] * nq) % nq
        if inside[j]:
            alone = xt_call(evaluate, case["yat"], xq_t[j:j + 1], _where="interp").detach().numpy()[..., 0]
            pad = torch.tensor(np.concatenate([[xq[j]], xmin + L * torch.rand((3 * n + 1,), generator=g, dtype=DT).numpy()]), dtype=DT)
            many = xt_call(evaluate, case["yat"], pad, _where="interp").detach().numpy()[..., 0]
            if np.abs(alone - many).max() > 1e-12 * ratio ** 2 * ymax:
                return violation("few_vs_many", "the two evaluation formulas disagree at xq=%r: %r vs %r" % (xq[j], alone, many), labels)
    elif rel == "reuse":
        # one object, several calls with different y batch shapes
        obj = Interp1D(x_t, **kw)
        for b2 in case["reuse_batches"]:
            y2 = torch.randn((*b2, n), generator=g, dtype=DT).numpy()
            if bc == "periodic" or eff_extrap == "periodic":
                y2[..., -1] = y2[..., 0]
            r2 = xt_call(obj, xq_t[inside], torch.tensor(y2[..., perm], dtype=DT), _where="interp-reuse")
            if not inside.any():
                break
            want = ref_interp(method, sbc, xs, y2, xq[inside])
            if tuple(r2.shape) != want.shape:
                return violation("reuse_shape", "re-used object: result shape %s, expected %s" % (tuple(r2.shape), want.shape), labels)
            if np.abs(r2.detach().numpy() - want).max() > tol:
                return violation("reuse_value", "re-used object gives wrong values for a later y (err %.2e)" % np.abs(r2.detach().numpy() - want).max(), labels)
    elif rel == "grad":
        if not inside.any():
            return ok(labels, False)
        xin = torch.tensor(xq[inside], dtype=DT, requires_grad=True)
        yg = y_t.clone().requires_grad_()
        out = xt_call(evaluate, case["yat"], xin, yg, _where="interp")
        W = torch.randn(out.shape, generator=g, dtype=DT)
        gy, gx = xt_call(torch.autograd.grad, (out * W).sum(), (yg, xin), allow_unused=True, _where="backward")
        # reference d/dy: interpolation matrix from unit vectors (sorted order), then permuted
        eye = np.eye(n)
        if bc == "periodic" or eff_extrap == "periodic":
            Lmat = None
        else:
            Lmat = ref_interp(method, sbc, xs, eye, xq[inside])      # (n, nq_in): row j = response to e_j
        Wn = W.numpy()
        if Lmat is not None:
            gy_ref_sorted = np.einsum("...q,jq->...j", Wn, Lmat)
            gy_ref = np.empty_like(gy_ref_sorted)
            gy_ref[..., :] = gy_ref_sorted[..., perm]
            gyn = np.zeros_like(gy_ref) if gy is None else gy.numpy()
            if np.abs(gyn - gy_ref).max() > 1e-9 * ratio ** 2 * (1 + np.abs(gy_ref).max()):
                return violation("grad_y", "d/dy differs from the interpolation matrix of the reference (err %.2e)" % np.abs(gyn - gy_ref).max(), labels)
        # d/dxq: derivative of the interpolant (skip queries sitting exactly on knots for linear: one-sided)
        d_ref = (ref_interp(method, sbc, xs, ys, xq[inside], nu=1) * Wn).reshape(-1, int(inside.sum())).sum(0)
        onknot = np.isin(xq[inside], xs)
        gxn = np.zeros_like(d_ref) if gx is None else gx.numpy()
        mask = ~onknot if method == "linear" else np.ones_like(onknot)
        if mask.any() and np.abs((gxn - d_ref)[mask]).max() > 1e-8 * ratio ** 3 * (1 + np.abs(d_ref).max()) / min(case["incs"]) / case["xscale"]:
            return violation("grad_xq", "d/dxq differs from the interpolant's derivative (err %.2e)" % np.abs((gxn - d_ref)[mask]).max(), labels)
    between = bool(((xq_eff if has_out and eff_extrap in ("mirror", "periodic", "bound") else xq)[inside | (has_out and eff_extrap in ("mirror", "periodic"))] if True else xq).size) and \
        bool((~np.isin(xq[inside], xs)).any())
    return ok(labels + ["rel=" + rel], between)


# ------------------------------------------------------------------ strategy

@st.composite
def case_st(draw, tier="quick"):
    method = draw(st.sampled_from(["linear", "cspline", "cspline", "cspline"]))
    bc = draw(st.sampled_from(["not-a-knot", "natural", "clamped", "periodic"])) if method == "cspline" else "natural"
    nmin = 4 if (method == "cspline" and bc == "not-a-knot") else 3
    n = draw(st.one_of(st.integers(nmin, 8), st.integers(nmin, 14 if tier == "quick" else 40)))
    incs = [draw(st.sampled_from([1.0, 1.0, 1.0, 0.5, 2.0, 0.1, 3.0, 10.0])) for _ in range(n - 1)]
    extrap = draw(st.sampled_from(["default", "default", "nan", "const", "callable", "bound", "mirror", "periodic"]))
    out_ok = True
    qk = ["in", "in", "knot", "lo", "hi"]
    qkinds = draw(st.lists(st.sampled_from(qk + (["out_lo", "out_hi"] if out_ok else [])), min_size=1, max_size=6))
    nq = draw(st.one_of(st.integers(1, n), st.integers(n + 1, 3 * n)))
    rel = draw(st.sampled_from(["init_vs_call", "sorted_vs_shuffled", "query_perm", "few_vs_many", "reuse", "grad", "grad"]))
    if rel == "grad":
        qkinds = [k for k in qkinds if not k.startswith("out")] or ["in"]
    constv = draw(st.sampled_from([1.75, 0.0, 0.0, -2.0, 3.0]))
    return {"const": constv, "constform": draw(st.sampled_from(["float", "float", "int", "tensor", "tensor1"])),
            "method": method, "bc": bc, "extrap": extrap, "incs": incs, "xscale": draw(st.sampled_from([1.0, 0.01, 30.0])),
            "x0": draw(st.sampled_from([0.0, -5.0, 2.5])), "shuffle": draw(st.booleans()), "nq": nq, "qkinds": qkinds,
            "batch": draw(st.sampled_from([[], [], [2], [1], [2, 3], [3, 1]])), "yat": draw(st.sampled_from(["init", "call"])),
            "rel": rel, "reuse_batches": draw(st.lists(st.sampled_from([[], [2], [1], [3], [2, 3]]), min_size=2, max_size=4)),
            "seed": draw(st.integers(0, 2 ** 31 - 1))}


def tasks(tier):
    return [Task("interp", strategy=case_st(tier), run=run_case, examples={"quick": 1600, "thorough": 30000})]
