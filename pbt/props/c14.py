"""C14 — Interp1D evaluates the declared interpolant of the samples.

Oracle: scipy.interpolate.CubicSpline(bc_type) / numpy.interp on the same (sorted) grid; the interpolation matrix
extracted from unit vectors gives d/dy; CubicSpline derivative gives d/dxq; extrapolation modes re-derived here.
Task "history": call histories on ONE Interp1D object (different y tensors, the same tensor updated in place, with/without grad,
alternating query sets); every call is checked against the reference for the data of that call and against a fresh object.
"""
from __future__ import annotations

import numpy as np
import torch
from hypothesis import strategies as st
from scipy.interpolate import CubicSpline

from pbt import gen
from pbt.harness import Task, ok, violation, discard, xt_call

PID = "C14"
RULE = ("method in {linear, cspline} x bc in {not-a-knot(>=4 knots), natural, clamped, periodic} x extrap in {default, nan, constant (float/int/0-d/1-element tensor, incl. exactly 0), "
        "callable, bound, mirror, periodic} x grid (3..40 knots, spacing ratio <=100, optionally shuffled) x queries (at knots, at the "
        "range ends, inside, outside; 1..3n of them, shuffled) x y batch shape x y at init/call x reuse of one object for several calls; "
        "the caller's x, y, xq must be bitwise unchanged by a call. "
        "history: ONE Interp1D object (x sorted / sorted with assume_sorted=True / shuffled; y at init or at call) and 2..4 (thorough 7) calls, each "
        "with y in {new tensor (any batch shape, contiguous or a strided view of a larger tensor), the same tensor again, the same tensor updated "
        "in place by copy_/add_/mul_/element assignment} x requires_grad on/off x torch.no_grad() on/off, and queries in {new, same tensor, same "
        "tensor updated in place} x few/many (both formulas) x inside/outside x requires_grad; every call is compared with the SciPy/NumPy "
        "reference for the values y holds at that call, with a freshly constructed Interp1D, its d/dy and d/dxq with the reference, and x, y "
        "(and the tensor y is a view of), xq must be bitwise unchanged. "
        "Non-trivial = at least one query strictly between knots (history: and at least two calls on the object); distinct by canonical case.")
ASSUMPTIONS = [
    "float64; x does not require grad (the statement claims differentiability in y and xq only)",
    "not-a-knot needs >= 4 knots (with 3 the two end conditions coincide and the spline is not unique)",
    "tolerance 1e-10 * ratio^2 * max|y| (spline system conditioning grows with the spacing ratio)",
    "batched y with an unbatched 1-D x (the docs restrict batched x/xq to the no-extrapolation case)",
    "history: a y passed at call time to an object constructed with y is ignored (documented in Interp1D.__call__); a y given at "
    "construction is never modified by the caller afterwards (the docs do not say whether the object snapshots it)",
    "history: where y[0]==y[-1] is required (periodic bc / periodic extrapolation) d/dy is only compared along directions that keep it "
    "(interior unit vectors and e_0+e_{n-1}); re-used object vs fresh object agree within 1e-13*ratio^2*max|y| (same arithmetic)",
]
LEVEL_TEXT = ("Differential exploration against SciPy's spline/NumPy's interp over generated grids, boundary conditions, query sets "
              "and call histories, including both internal evaluation formulas and every extrapolation mode.")
LEVEL_NOTE = "trusts scipy.interpolate.CubicSpline and numpy.interp as references"
TECHNIQUE = ("Hypothesis property-based testing: differential oracle (SciPy/NumPy) + metamorphic relations (permutation, few-vs-many queries) "
             "+ generated call histories on one object (model = the reference applied to the data of each call)")

DT = torch.float64


def make_grid(case):
    incs = np.array(case["incs"], dtype=np.float64)
    x = np.concatenate([[0.0], np.cumsum(incs)]) * case["xscale"] + case["x0"]
    return x


def ref_interp(method, bc, xs, ys, xq, nu=0):
    """reference values (or derivative nu=1) at points inside the range; ys: (..., n)"""
    if method == "linear":
        flat = ys.reshape(-1, ys.shape[-1])
        if nu == 0:
            out = np.stack([np.interp(xq, xs, row) for row in flat])
        else:
            idx = np.clip(np.searchsorted(xs, xq, side="left"), 1, len(xs) - 1)
            out = np.stack([(row[idx] - row[idx - 1]) / (xs[idx] - xs[idx - 1]) for row in flat])
        return out.reshape(*ys.shape[:-1], len(xq))
    cs = CubicSpline(xs, ys, axis=-1, bc_type=bc)
    return cs(xq, nu)


def map_outside(xq, xmin, xmax, mode):
    L = xmax - xmin
    p = (xq - xmin) / L
    if mode == "periodic":
        p = p - np.floor(p)
    elif mode == "mirror":
        p = np.abs(p)
        p = p - 2 * np.floor(p / 2)
        p = np.where(p > 1, 2 - p, p)
    elif mode == "bound":
        p = np.clip(p, 0.0, 1.0)
    return xmin + p * L


def same_bits(t, before):
    """bitwise equality of two float64 tensors of the same shape (no NaN / signed-zero leniency)"""
    return tuple(t.shape) == tuple(before.shape) and \
        torch.equal(t.detach().contiguous().view(torch.int64), before.detach().contiguous().view(torch.int64))


def run_case(case):
    from xitorch.interpolate import Interp1D
    torch.manual_seed(0)
    g = gen.seeded(case["seed"])
    method, bc, extrap = case["method"], case["bc"], case["extrap"]
    xs = make_grid(case)
    n = len(xs)
    ratio = max(case["incs"]) / min(case["incs"])
    batch = tuple(case["batch"])
    ys = torch.randn((*batch, n), generator=g, dtype=DT).numpy().copy()
    eff_extrap = extrap
    if extrap == "default":
        eff_extrap = {"clamped": "mirror", "periodic": "periodic"}.get(bc, "nan") if method == "cspline" else "nan"
    if bc == "periodic" or eff_extrap == "periodic":
        ys[..., -1] = ys[..., 0]
    perm = torch.randperm(n, generator=g).numpy() if case["shuffle"] else np.arange(n)
    x_t = torch.tensor(xs[perm], dtype=DT)
    y_t = torch.tensor(ys[..., perm], dtype=DT)
    xmin, xmax = xs[0], xs[-1]
    L = xmax - xmin

    # queries
    nq = case["nq"]
    u = torch.rand((nq,), generator=g, dtype=DT).numpy()
    kinds = case["qkinds"]
    xq = np.empty(nq)
    for i in range(nq):
        k = kinds[i % len(kinds)]
        if k == "knot":
            xq[i] = xs[int(u[i] * n) % n]
        elif k == "lo":
            xq[i] = xmin
        elif k == "hi":
            xq[i] = xmax
        elif k == "in":
            xq[i] = xmin + u[i] * L
        elif k == "out_lo":
            xq[i] = xmin - (0.05 + 2.4 * u[i]) * L
        elif k == "out_hi":
            xq[i] = xmax + (0.05 + 2.4 * u[i]) * L
    inside = (xq >= xmin) & (xq <= xmax)
    has_out = not inside.all()
    labels = ["method=" + method, "bc=" + (bc if method == "cspline" else "-"), "extrap=" + str(eff_extrap if has_out else "none-needed"),
              "n=%s" % ("3" if n == 3 else "4-8" if n <= 8 else "9+"), "formula=" + ("many" if nq > n else "few"),
              "yat=" + case["yat"], "shuffled" if case["shuffle"] else "sorted", "batch=%d" % len(batch)]

    kw = {"method": method}
    if method == "cspline":
        kw["bc_type"] = bc
    const = float(case.get("const", 1.75))
    cform = case.get("constform", "float")
    const_arg = {"float": float(const), "int": int(const), "tensor": torch.tensor(const, dtype=DT), "tensor1": torch.tensor([const], dtype=DT)}[cform]
    if cform == "int":
        const = float(int(const))
    seen_by_callable = []

    def extrap_fcn(z):
        # documented: "apply this extrapolation function with the extrapolated positions"
        seen_by_callable.append(z.detach().clone())
        return 2.0 * z + 1.0
    if extrap != "default":
        kw["extrap"] = {"nan": "nan", "const": const_arg, "callable": extrap_fcn, "bound": "bound",
                        "mirror": "mirror", "periodic": "periodic", "none": None}[extrap]
    xq_t = torch.tensor(xq, dtype=DT)

    def evaluate(yat, xq_tensor, y_tensor=y_t):
        if yat == "init":
            return Interp1D(x_t, y_tensor, **kw)(xq_tensor)
        return Interp1D(x_t, **kw)(xq_tensor, y_tensor)

    snap = [(nm, t, t.clone()) for nm, t in (("x", x_t), ("y", y_t), ("xq", xq_t))]
    got = xt_call(evaluate, case["yat"], xq_t, _where="interp")
    for nm, t, before in snap:
        if not same_bits(t, before):
            return violation("input_modified", "the caller's %s tensor was modified by the call (extrap=%s)" % (nm, extrap), labels)
    if tuple(got.shape) != (*batch, nq):
        return violation("shape", "result shape %s, expected %s" % (tuple(got.shape), (*batch, nq)), labels)
    if extrap == "callable":
        for z in seen_by_callable:
            zz = z.reshape(-1).numpy()
            if ((zz >= xmin) & (zz <= xmax)).any():
                return violation("callable_args", "the extrapolation callable was applied to positions inside the sample range [%r, %r]: %r" % (
                    xmin, xmax, zz[(zz >= xmin) & (zz <= xmax)][:4].tolist()), labels)
        if has_out and not seen_by_callable:
            return violation("callable_not_called", "queries outside the range but the extrapolation callable was never called", labels)
        del seen_by_callable[:]

    # reference
    sbc = bc if method == "cspline" else None
    xq_eff = xq.copy()
    ref = np.empty((*batch, nq))
    if has_out and eff_extrap in ("mirror", "periodic", "bound"):
        xq_eff[~inside] = map_outside(xq[~inside], xmin, xmax, eff_extrap)
        ref[...] = ref_interp(method, sbc, xs, ys, xq_eff)
    else:
        ref[..., inside] = ref_interp(method, sbc, xs, ys, xq[inside]) if inside.any() else 0.0
        if has_out:
            if eff_extrap == "nan":
                ref[..., ~inside] = np.nan
            elif eff_extrap == "const":
                ref[..., ~inside] = const
            elif eff_extrap == "callable":
                ref[..., ~inside] = 2.0 * xq[~inside] + 1.0
    ymax = float(np.abs(ys).max()) + 1.0
    # slope bound for positions perturbed by the extrapolation mapping
    tol = 1e-10 * ratio ** 2 * ymax * (1 + (3 * np.abs(xq).max() / L if has_out else 0))
    gotn = got.detach().numpy()
    nanmask = np.isnan(ref)
    if (np.isnan(gotn) != nanmask).any():
        return violation("nan_pattern", "NaN pattern differs: got NaN at %s, expected at %s" % (
            np.argwhere(np.isnan(gotn))[:4].tolist(), np.argwhere(nanmask)[:4].tolist()), labels)
    err = np.abs(np.where(nanmask, 0.0, gotn - ref))
    if err.max() > tol:
        i = np.unravel_index(np.argmax(err), err.shape)
        return violation("value", "xq=%r (inside=%s): got %r, reference %r (err %.2e, tol %.2e); n=%d bc=%s extrap=%s" % (
            xq[i[-1]], bool(inside[i[-1]]), gotn[i], ref[i], err.max(), tol, n, bc, eff_extrap), labels)

    # samples reproduced at the knots (tight)
    atk = xt_call(evaluate, case["yat"], torch.tensor(xs, dtype=DT), _where="interp@knots").detach().numpy()
    if np.abs(atk - ys).max() > 1e-11 * ratio * ymax:
        return violation("knots", "values at the sample positions differ from the samples by %.2e" % np.abs(atk - ys).max(), labels)

    rel = case["rel"]
    if rel == "init_vs_call":
        other = xt_call(evaluate, "call" if case["yat"] == "init" else "init", xq_t, _where="interp").detach().numpy()
        if not np.allclose(other, gotn, rtol=0, atol=1e-13 * ymax * ratio, equal_nan=True):
            return violation("init_vs_call", "y at construction and y at call give different results (max diff %.2e)" % np.nanmax(np.abs(other - gotn)), labels)
    elif rel == "sorted_vs_shuffled":
        xs_t = torch.tensor(xs, dtype=DT)
        ys_t = torch.tensor(ys, dtype=DT)
        other = (Interp1D(xs_t, ys_t, **kw)(xq_t) if case["yat"] == "init" else Interp1D(xs_t, **kw)(xq_t, ys_t)).detach().numpy()
        if not np.allclose(other, gotn, rtol=0, atol=1e-13 * ymax * ratio, equal_nan=True):
            return violation("sample_order", "results depend on the order of the samples", labels)
    elif rel == "query_perm":
        qp = torch.randperm(nq, generator=g)
        other = xt_call(evaluate, case["yat"], xq_t[qp], _where="interp").detach().numpy()
        if not np.allclose(other, gotn[..., qp.numpy()], rtol=0, atol=1e-13 * ymax * ratio, equal_nan=True):
            return violation("query_order", "permuting the queries does not permute the results", labels)
    elif rel == "few_vs_many":
        # one query evaluated alone (few-queries formula) vs among 3n+1 queries (many-queries formula)
        j = int(u[0] * nq) % nq
        if inside[j]:
            alone = xt_call(evaluate, case["yat"], xq_t[j:j + 1], _where="interp").detach().numpy()[..., 0]
            pad = torch.tensor(np.concatenate([[xq[j]], xmin + L * torch.rand((3 * n + 1,), generator=g, dtype=DT).numpy()]), dtype=DT)
            many = xt_call(evaluate, case["yat"], pad, _where="interp").detach().numpy()[..., 0]
            if np.abs(alone - many).max() > 1e-12 * ratio ** 2 * ymax:
                return violation("few_vs_many", "the two evaluation formulas disagree at xq=%r: %r vs %r" % (xq[j], alone, many), labels)
    elif rel == "reuse":
        # one object, several calls with different y batch shapes
        obj = Interp1D(x_t, **kw)
        for b2 in case["reuse_batches"]:
            y2 = torch.randn((*b2, n), generator=g, dtype=DT).numpy()
            if bc == "periodic" or eff_extrap == "periodic":
                y2[..., -1] = y2[..., 0]
            r2 = xt_call(obj, xq_t[inside], torch.tensor(y2[..., perm], dtype=DT), _where="interp-reuse")
            if not inside.any():
                break
            want = ref_interp(method, sbc, xs, y2, xq[inside])
            if tuple(r2.shape) != want.shape:
                return violation("reuse_shape", "re-used object: result shape %s, expected %s" % (tuple(r2.shape), want.shape), labels)
            if np.abs(r2.detach().numpy() - want).max() > tol:
                return violation("reuse_value", "re-used object gives wrong values for a later y (err %.2e)" % np.abs(r2.detach().numpy() - want).max(), labels)
    elif rel == "grad":
        if not inside.any():
            return ok(labels, False)
        xin = torch.tensor(xq[inside], dtype=DT, requires_grad=True)
        yg = y_t.clone().requires_grad_()
        out = xt_call(evaluate, case["yat"], xin, yg, _where="interp")
        W = torch.randn(out.shape, generator=g, dtype=DT)
        gy, gx = xt_call(torch.autograd.grad, (out * W).sum(), (yg, xin), allow_unused=True, _where="backward")
        # reference d/dy: interpolation matrix from unit vectors (sorted order), then permuted
        eye = np.eye(n)
        if bc == "periodic" or eff_extrap == "periodic":
            Lmat = None
        else:
            Lmat = ref_interp(method, sbc, xs, eye, xq[inside])      # (n, nq_in): row j = response to e_j
        Wn = W.numpy()
        if Lmat is not None:
            gy_ref_sorted = np.einsum("...q,jq->...j", Wn, Lmat)
            gy_ref = np.empty_like(gy_ref_sorted)
            gy_ref[..., :] = gy_ref_sorted[..., perm]
            gyn = np.zeros_like(gy_ref) if gy is None else gy.numpy()
            if np.abs(gyn - gy_ref).max() > 1e-9 * ratio ** 2 * (1 + np.abs(gy_ref).max()):
                return violation("grad_y", "d/dy differs from the interpolation matrix of the reference (err %.2e)" % np.abs(gyn - gy_ref).max(), labels)
        # d/dxq: derivative of the interpolant (skip queries sitting exactly on knots for linear: one-sided)
        d_ref = (ref_interp(method, sbc, xs, ys, xq[inside], nu=1) * Wn).reshape(-1, int(inside.sum())).sum(0)
        onknot = np.isin(xq[inside], xs)
        gxn = np.zeros_like(d_ref) if gx is None else gx.numpy()
        mask = ~onknot if method == "linear" else np.ones_like(onknot)
        if mask.any() and np.abs((gxn - d_ref)[mask]).max() > 1e-8 * ratio ** 3 * (1 + np.abs(d_ref).max()) / min(case["incs"]) / case["xscale"]:
            return violation("grad_xq", "d/dxq differs from the interpolant's derivative (err %.2e)" % np.abs((gxn - d_ref)[mask]).max(), labels)
    between = bool(((xq_eff if has_out and eff_extrap in ("mirror", "periodic", "bound") else xq)[inside | (has_out and eff_extrap in ("mirror", "periodic"))] if True else xq).size) and \
        bool((~np.isin(xq[inside], xs)).any())
    return ok(labels + ["rel=" + rel], between)


# ------------------------------------------------------------------ strategy

@st.composite
def case_st(draw, tier="quick"):
    method = draw(st.sampled_from(["linear", "cspline", "cspline", "cspline"]))
    bc = draw(st.sampled_from(["not-a-knot", "natural", "clamped", "periodic"])) if method == "cspline" else "natural"
    nmin = 4 if (method == "cspline" and bc == "not-a-knot") else 3
    n = draw(st.one_of(st.integers(nmin, 8), st.integers(nmin, 14 if tier == "quick" else 40)))
    incs = [draw(st.sampled_from([1.0, 1.0, 1.0, 0.5, 2.0, 0.1, 3.0, 10.0])) for _ in range(n - 1)]
    extrap = draw(st.sampled_from(["default", "default", "nan", "const", "callable", "bound", "mirror", "periodic"]))
    out_ok = True
    qk = ["in", "in", "knot", "lo", "hi"]
    qkinds = draw(st.lists(st.sampled_from(qk + (["out_lo", "out_hi"] if out_ok else [])), min_size=1, max_size=6))
    nq = draw(st.one_of(st.integers(1, n), st.integers(n + 1, 3 * n)))
    rel = draw(st.sampled_from(["init_vs_call", "sorted_vs_shuffled", "query_perm", "few_vs_many", "reuse", "grad", "grad"]))
    if rel == "grad":
        qkinds = [k for k in qkinds if not k.startswith("out")] or ["in"]
    constv = draw(st.sampled_from([1.75, 0.0, 0.0, -2.0, 3.0]))
    return {"const": constv, "constform": draw(st.sampled_from(["float", "float", "int", "tensor", "tensor1"])),
            "method": method, "bc": bc, "extrap": extrap, "incs": incs, "xscale": draw(st.sampled_from([1.0, 0.01, 30.0])),
            "x0": draw(st.sampled_from([0.0, -5.0, 2.5])), "shuffle": draw(st.booleans()), "nq": nq, "qkinds": qkinds,
            "batch": draw(st.sampled_from([[], [], [2], [1], [2, 3], [3, 1]])), "yat": draw(st.sampled_from(["init", "call"])),
            "rel": rel, "reuse_batches": draw(st.lists(st.sampled_from([[], [2], [1], [3], [2, 3]]), min_size=2, max_size=4)),
            "seed": draw(st.integers(0, 2 ** 31 - 1))}


# ------------------------------------------------------------------ histories on ONE Interp1D object

def draw_queries(kinds, nq, u, xs):
    n, xmin, xmax = len(xs), xs[0], xs[-1]
    L = xmax - xmin
    xq = np.empty(nq)
    for i in range(nq):
        k = kinds[i % len(kinds)]
        if k == "knot":
            xq[i] = xs[int(u[i] * n) % n]
        elif k == "lo":
            xq[i] = xmin
        elif k == "hi":
            xq[i] = xmax
        elif k == "in":
            xq[i] = xmin + u[i] * L
        elif k == "out_lo":
            xq[i] = xmin - (0.05 + 2.4 * u[i]) * L
        elif k == "out_hi":
            xq[i] = xmax + (0.05 + 2.4 * u[i]) * L
    return xq


def reference(method, sbc, eff_extrap, xs, ys, xq, const):
    """reference values for the samples ys (sorted order) -> (ref, inside mask, positions the interpolant is evaluated at,
    mask of the queries whose value depends on y)"""
    xmin, xmax = xs[0], xs[-1]
    inside = (xq >= xmin) & (xq <= xmax)
    pos = xq.copy()
    ref = np.empty((*ys.shape[:-1], len(xq)))
    if eff_extrap in ("mirror", "periodic", "bound"):
        if not inside.all():
            pos[~inside] = map_outside(xq[~inside], xmin, xmax, eff_extrap)
        ref[...] = ref_interp(method, sbc, xs, ys, pos)
        return ref, inside, pos, np.ones_like(inside)
    if inside.any():
        ref[..., inside] = ref_interp(method, sbc, xs, ys, xq[inside])
    if eff_extrap == "nan":
        ref[..., ~inside] = np.nan
    elif eff_extrap == "const":
        ref[..., ~inside] = const
    elif eff_extrap == "callable":
        ref[..., ~inside] = 2.0 * xq[~inside] + 1.0
    else:
        raise ValueError(eff_extrap)
    return ref, inside, pos, inside


def run_history(case):
    """ONE Interp1D object, a generated sequence of calls.  Every call is compared with the reference for the values y holds
    AT THAT CALL and with a freshly constructed Interp1D; the caller's x, y, xq must be bitwise unchanged by every call."""
    from xitorch.interpolate import Interp1D
    torch.manual_seed(0)
    g = gen.seeded(case["seed"])
    method, bc, extrap = case["method"], case["bc"], case["extrap"]
    xs = make_grid(case)
    n = len(xs)
    ratio = max(case["incs"]) / min(case["incs"])
    xmin, xmax = xs[0], xs[-1]
    L = xmax - xmin
    eff_extrap = extrap
    if extrap == "default":
        eff_extrap = {"clamped": "mirror", "periodic": "periodic"}.get(bc, "nan") if method == "cspline" else "nan"
    tied = (method == "cspline" and bc == "periodic") or eff_extrap == "periodic"     # y[0] == y[-1] required
    sbc = bc if method == "cspline" else None
    perm = torch.randperm(n, generator=g).numpy() if case["shuffle"] else np.arange(n)
    inv = np.argsort(perm)              # y_t[..., inv[i]] holds the sample of the i-th smallest position
    x_t = torch.tensor(xs[perm], dtype=DT)
    const = float(case["const"])
    kw = {"method": method}
    if method == "cspline":
        kw["bc_type"] = bc
    if extrap != "default":
        kw["extrap"] = {"nan": "nan", "const": const, "callable": (lambda z: 2.0 * z + 1.0), "bound": "bound",
                        "mirror": "mirror", "periodic": "periodic"}[extrap]
    kw_obj = dict(kw)
    if case["assume_sorted"]:
        kw_obj["assume_sorted"] = True

    def sorted_values(batch):
        v = torch.randn((*batch, n), generator=g, dtype=DT).numpy().copy()
        if tied:
            v[..., -1] = v[..., 0]
        return v

    def new_tensor(batch, layout):
        v = torch.tensor(sorted_values(batch)[..., perm], dtype=DT)
        if layout == "strided":         # a view into a larger tensor of the caller (every other element)
            base = torch.zeros((*batch, 2 * n), dtype=DT)
            base[..., ::2] = v
            return base[..., ::2], base
        return v, None

    y0 = None
    if case["yinit"]:
        y0, _ = new_tensor(tuple(case["batch0"]), "contig")
        obj = xt_call(Interp1D, x_t, y0, _where="construct", **kw_obj)
    else:
        obj = xt_call(Interp1D, x_t, _where="construct", **kw_obj)
    x_before = x_t.clone()

    labels = ["method=" + method, "bc=" + (bc if method == "cspline" else "-"),
              "x=" + ("shuffled" if case["shuffle"] else "sorted+assume_sorted" if case["assume_sorted"] else "sorted"),
              "yat=" + ("init" if case["yinit"] else "call"), "hist-extrap=" + str(eff_extrap)]
    y = ybase = xq_t = None
    ncalls = 0
    between = False
    seen = set()
    for k, op in enumerate(case["ops"]):
        where = "call %d (%s)" % (k, {kk: op[kk] for kk in ("y", "q", "grad", "nograd")})
        # ---- the y of this call
        ykind = op["y"]
        if case["yinit"]:
            # documented: a y given at call is ignored (with a warning) when y was given at construction
            ycall = new_tensor(tuple(case["batch0"]), "contig")[0] if ykind in ("new", "copy_") else None
            ycur = y0
            seen.add("y=ignored" if ycall is not None else "y=None")
        else:
            if y is None or ykind == "new":
                ykind = "new"
                y, ybase = new_tensor(tuple(op["batch"]), op["layout"])
            elif ykind != "same":
                with torch.no_grad():
                    if ykind == "copy_":
                        y.copy_(torch.tensor(sorted_values(tuple(y.shape[:-1]))[..., perm], dtype=DT))
                    elif ykind == "add_":
                        y.add_(torch.tensor(sorted_values(())[perm], dtype=DT))
                    elif ykind == "mul_":
                        y.mul_(-1.5)
                    elif ykind == "partial":
                        vals = sorted_values(tuple(y.shape[:-1]))
                        idx = sorted({int(i) % n for i in op["idx"]})
                        if tied and (0 in idx or n - 1 in idx):
                            idx = sorted(set(idx) | {0, n - 1})
                        for i in idx:
                            y[..., int(inv[i])] = torch.tensor(vals[..., i], dtype=DT)
                    else:
                        raise ValueError(ykind)
            y.requires_grad_(bool(op["grad"]))
            ycall = ycur = y
            seen.add("y=" + ykind + ("+grad" if op["grad"] else ""))
            if ybase is not None:
                seen.add("y-layout=strided")
        ys_now = ycur.detach().numpy()[..., inv].copy()           # values at this call, sorted order
        batch = tuple(ycur.shape[:-1])
        # ---- the queries of this call
        qkind = op["q"]
        if xq_t is None or qkind == "new":
            nq = op["nq"]
            xq = draw_queries(op["qkinds"], nq, torch.rand((nq,), generator=g, dtype=DT).numpy(), xs)
            xq_t = torch.tensor(xq, dtype=DT)
        elif qkind == "inplace":
            nq = xq_t.shape[-1]
            xq = draw_queries(op["qkinds"], nq, torch.rand((nq,), generator=g, dtype=DT).numpy(), xs)
            with torch.no_grad():
                xq_t.copy_(torch.tensor(xq, dtype=DT))
        nq = xq_t.shape[-1]
        xq = xq_t.detach().numpy().copy()
        xq_t.requires_grad_(bool(op["qgrad"]))
        seen.add("formula=" + ("many" if nq > n else "few"))
        seen.add("q=" + qkind)

        ref, inside, pos, act = reference(method, sbc, eff_extrap, xs, ys_now, xq, const)
        has_out = not inside.all()
        ymax = float(np.abs(ys_now).max()) + 1.0
        tol = 1e-10 * ratio ** 2 * ymax * (1 + (3 * np.abs(xq).max() / L if has_out else 0))

        snap = [("xq", xq_t, xq_t.detach().clone())]
        if ycall is not None:
            snap.append(("y", ycall, ycall.detach().clone()))
        if ybase is not None and not case["yinit"]:
            snap.append(("the tensor y is a view of", ybase, ybase.detach().clone()))
        if y0 is not None:
            snap.append(("y given at construction", y0, y0.detach().clone()))
        with torch.set_grad_enabled(not op["nograd"]):
            out = xt_call(obj, xq_t, ycall, _where="history-call") if ycall is not None else xt_call(obj, xq_t, _where="history-call")
        ncalls += 1
        for nm, t, before in snap + [("x", x_t, x_before)]:
            if not same_bits(t, before):
                return violation("input_modified", "%s: the caller's %s tensor was modified by the call" % (where, nm), labels)
        if tuple(out.shape) != (*batch, nq):
            return violation("history_shape", "%s: result shape %s, expected %s" % (where, tuple(out.shape), (*batch, nq)), labels)
        outn = out.detach().numpy()
        nanmask = np.isnan(ref)
        if (np.isnan(outn) != nanmask).any():
            return violation("history_nan_pattern", "%s: NaN pattern differs from the reference" % where, labels)
        err = np.abs(np.where(nanmask, 0.0, outn - ref))
        if err.max() > tol:
            i = np.unravel_index(np.argmax(err), err.shape)
            return violation("history_value", "%s on a re-used object: at xq=%r got %r, reference for the values y holds at this call %r "
                             "(err %.2e, tol %.2e)" % (where, xq[i[-1]], outn[i], ref[i], err.max(), tol), labels)
        # a freshly constructed object with the same data (xitorch-vs-xitorch, in addition to the reference)
        fresh = xt_call(lambda: Interp1D(x_t.clone(), ycur.detach().clone(), **kw)(xq_t.detach().clone()), _where="fresh")
        fn = fresh.detach().numpy()
        if (np.isnan(fn) != nanmask).any() or np.abs(np.where(nanmask, 0.0, fn - outn)).max() > 1e-13 * ymax * ratio ** 2:
            return violation("history_vs_fresh", "%s: the re-used object and a freshly constructed Interp1D(x, y) differ by %.2e" % (
                where, np.abs(np.where(nanmask, 0.0, fn - outn)).max()), labels)
        between = between or bool((~np.isin(pos[act], xs)).any())

        # ---- derivatives, when this call records a graph
        want_y = bool(op["grad"]) and not op["nograd"] and not case["yinit"]
        want_q = bool(op["qgrad"]) and not op["nograd"] and not has_out
        if (want_y or want_q) and act.any():
            if not out.requires_grad:
                return violation("history_no_graph", "%s: the result does not require grad although %s does" % (
                    where, "y" if want_y else "xq"), labels)
            nact = int(act.sum())
            W = torch.randn((*batch, nact), generator=g, dtype=DT)
            Wn = W.numpy()
            wrt = ([ycall] if want_y else []) + ([xq_t] if want_q else [])
            grads = xt_call(torch.autograd.grad, (out[..., torch.tensor(act)] * W).sum(), wrt, allow_unused=True, _where="history-backward")
            grads = list(grads)
            if want_y:
                gy = grads.pop(0)
                gyn = np.zeros((*batch, n)) if gy is None else gy.numpy()[..., inv]          # sorted order
                # row j of Lmat = response of the interpolant to the j-th unit vector; with y[0]==y[-1] required, only
                # directions inside that subspace are defined: interior unit vectors and e_0 + e_{n-1}
                E = np.eye(n)
                if tied:
                    E[0, -1] = 1.0
                    E = E[:-1]
                    gyn = np.concatenate([gyn[..., :1] + gyn[..., -1:], gyn[..., 1:-1]], axis=-1)
                Lmat = ref_interp(method, sbc, xs, E, pos[act])
                gy_ref = np.einsum("...q,jq->...j", Wn, Lmat)
                if np.abs(gyn - gy_ref).max() > 1e-9 * ratio ** 2 * (1 + np.abs(gy_ref).max()):
                    return violation("history_grad_y", "%s: d/dy differs from the interpolation matrix of the reference (err %.2e)" % (
                        where, np.abs(gyn - gy_ref).max()), labels)
                seen.add("checked=grad_y")
            if want_q:
                gx = grads.pop(0)
                d_ref = (ref_interp(method, sbc, xs, ys_now, xq, nu=1) * Wn).reshape(-1, nq).sum(0)
                gxn = np.zeros_like(d_ref) if gx is None else gx.numpy()
                mask = ~np.isin(xq, xs) if method == "linear" else np.ones(nq, dtype=bool)
                if mask.any() and np.abs((gxn - d_ref)[mask]).max() > 1e-8 * ratio ** 3 * (1 + np.abs(d_ref).max()) / min(case["incs"]) / case["xscale"]:
                    return violation("history_grad_xq", "%s: d/dxq differs from the interpolant's derivative (err %.2e)" % (
                        where, np.abs((gxn - d_ref)[mask]).max()), labels)
                seen.add("checked=grad_xq")
        del out
    return ok(labels + sorted(seen) + ["calls=%d" % ncalls], ncalls >= 2 and between)


@st.composite
def history_st(draw, tier="quick"):
    method = draw(st.sampled_from(["linear", "cspline", "cspline", "cspline"]))
    bc = draw(st.sampled_from(["not-a-knot", "natural", "clamped", "periodic"])) if method == "cspline" else "natural"
    nmin = 4 if (method == "cspline" and bc == "not-a-knot") else 3
    n = draw(st.integers(nmin, 8 if tier == "quick" else 16))
    incs = [draw(st.sampled_from([1.0, 1.0, 1.0, 0.5, 2.0, 0.1, 3.0, 10.0])) for _ in range(n - 1)]
    extrap = draw(st.sampled_from(["default", "default", "default", "nan", "const", "callable", "bound", "mirror", "periodic"]))
    shuffle = draw(st.booleans())
    qk = ["in", "in", "in", "knot", "lo", "hi", "out_lo", "out_hi"]
    batches = [[], [], [2], [1], [2, 3]]
    nops = draw(st.integers(2, 4 if tier == "quick" else 7))
    ops = []
    for _ in range(nops):
        ops.append({"y": draw(st.sampled_from(["new", "same", "copy_", "copy_", "add_", "mul_", "partial"])),
                    "batch": draw(st.sampled_from(batches)), "layout": draw(st.sampled_from(["contig", "contig", "strided"])),
                    "grad": draw(st.sampled_from([False, False, True])), "nograd": draw(st.sampled_from([False, False, False, True])),
                    "idx": draw(st.lists(st.integers(0, n - 1), min_size=1, max_size=3)),
                    "q": draw(st.sampled_from(["new", "new", "same", "inplace"])), "qgrad": draw(st.sampled_from([False, False, False, True])),
                    "nq": draw(st.one_of(st.integers(1, n), st.integers(n + 1, 3 * n))),
                    "qkinds": draw(st.lists(st.sampled_from(qk), min_size=1, max_size=4))})
    return {"method": method, "bc": bc, "extrap": extrap, "incs": incs, "xscale": draw(st.sampled_from([1.0, 0.01, 30.0])),
            "x0": draw(st.sampled_from([0.0, -5.0, 2.5])), "shuffle": shuffle,
            "assume_sorted": (not shuffle) and draw(st.booleans()), "yinit": draw(st.sampled_from([False, False, False, True])),
            "batch0": draw(st.sampled_from(batches)), "const": draw(st.sampled_from([1.75, 0.0, -2.0])), "ops": ops,
            "seed": draw(st.integers(0, 2 ** 31 - 1))}


def tasks(tier):
    return [Task("interp", strategy=case_st(tier), run=run_case, examples={"quick": 1600, "thorough": 30000}),
            Task("history", strategy=history_st(tier), run=run_history, examples={"quick": 500, "thorough": 8000})]
