"""Shared helpers of the C10 (objects never left modified) and C19 (no tensor outlives a call) checks.

* `snapshot(roots)` / `diff_snapshots`: an identity + value + registration snapshot of everything the caller
  handed to xitorch (modules, EditableModules, LinearOperators, explicit tensors).
* function kinds: the shared kinds of `pbt/gen.py` plus two that matter for state restoration only
  (`em_nn_part`: EditableModule holding an nn.Module of which the method uses a subset of the parameters, listed in
  an order different from the registration order; `nn_tied`: nn.Module with a tied parameter, recorded defect D20).
* `make_linop`: user LinearOperator classes (fresh class per call) over tensors held as attributes / aliases /
  containers / a held nn.Module, with a tick of the evaluation counter in every product method.
* `Problem` builders: one tiny well-posed instance per functional, `forward()` returns the tuple of result tensors.
* `run_phases(problem, phase, g)`: forward (+ backward (+ graph-recording backward and a second backward)).

Everything is float64 and tiny (<= 3 unknowns): C10/C19 are about object state and reachability, not numerics;
no numerical claim about the results is made here (they are only compared with a repetition of the same call).
"""
from __future__ import annotations

import os

import torch

from pbt import gen

DT = torch.float64

FCN_FUNCTIONALS = ["rootfinder", "equilibrium", "minimize", "solve_ivp", "quad", "mcquad", "jac", "hess", "jacsolve"]
OP_FUNCTIONALS = ["solve", "symeig"]

METHODS = {
    "rootfinder": ["broyden1", "broyden2", "linearmixing"],
    "equilibrium": ["broyden1", "anderson_acc", "linearmixing"],
    "minimize": ["gd", "adam", "broyden1"],
    "solve_ivp": ["rk4", "rk38", "euler", "rk23", "rk45"],
    "quad": ["leggauss"],
    "mcquad": ["mh", "_dummy1d"],
    "jac": ["mv", "rmv", "fullmatrix"],
    "hess": ["mv", "fullmatrix"],
    "jacsolve": ["cg", "bicgstab", "gmres", "exactsolve"],
    "solve": ["cg", "bicgstab", "gmres", "broyden1", "custom_exactsolve", "exactsolve"],
    "symeig": ["exacteig", "custom_exacteig", "davidson"],
}

# methods only used by the leak check C19 (Newton builds a Jacobian operator per iteration: many evaluations, too slow for the
# crash-index enumeration of C10)
METHODS_C19_EXTRA = {"rootfinder": ["newton"], "equilibrium": ["newton"], "minimize": ["newton"]}

XITORCH_CACHE_ATTRS = {"_paramnames_", "_unique_params_idxs", "_unique_params_maps", "_number_of_params"}


# =============================================================================================== snapshots

def _tensor_entry(t):
    return {"id": id(t), "type": type(t).__name__, "param": isinstance(t, torch.nn.Parameter),
            "req": bool(t.requires_grad), "leaf": bool(t.is_leaf), "shape": tuple(t.shape), "dtype": str(t.dtype),
            "val": t.detach().clone()}


def _walk(obj, path, out, seen, depth=0):
    """records tensors reachable from obj: out["t"][path] = entry (order-insensitive map),
    out["reg"][path-of-module] = ordered registration lists of an nn.Module"""
    if isinstance(obj, torch.Tensor):
        out["t"][path] = _tensor_entry(obj)
        return
    if id(obj) in seen or depth > 8:
        return
    if isinstance(obj, torch.nn.Module):
        seen.add(id(obj))
        out["reg"][path] = {
            "params": [(k, id(v), type(v).__name__) for k, v in obj._parameters.items()],
            "named_parameters": [(k, id(v)) for k, v in obj.named_parameters()],
            "buffers": [(k, id(v)) for k, v in obj._buffers.items()],
            "modules": [(k, id(v)) for k, v in obj._modules.items()],
        }
        for k, v in obj._parameters.items():
            if v is not None:
                out["t"][path + "._parameters." + k] = _tensor_entry(v)
        for k, v in obj._buffers.items():
            if v is not None:
                out["t"][path + "._buffers." + k] = _tensor_entry(v)
        for k, v in obj._modules.items():
            if v is not None:
                _walk(v, path + "." + k, out, seen, depth + 1)
        for k, v in obj.__dict__.items():
            if k in ("_parameters", "_buffers", "_modules") or k.startswith("_") and not isinstance(v, torch.Tensor):
                continue
            _walk(v, path + ".__dict__." + k, out, seen, depth + 1)
        return
    if isinstance(obj, (list, tuple)):
        seen.add(id(obj))
        out["c"][path] = ("seq", len(obj))
        for i, v in enumerate(obj):
            _walk(v, "%s[%d]" % (path, i), out, seen, depth + 1)
        return
    if isinstance(obj, dict):
        seen.add(id(obj))
        out["c"][path] = ("dict", tuple(sorted(str(k) for k in obj.keys())))
        for k, v in obj.items():
            _walk(v, "%s[%r]" % (path, k), out, seen, depth + 1)
        return
    if hasattr(obj, "__dict__") and not callable(obj) or _is_user_object(obj):
        seen.add(id(obj))
        for k, v in vars(obj).items():
            if k in XITORCH_CACHE_ATTRS:
                continue
            if isinstance(v, (torch.Tensor, list, tuple, dict, torch.nn.Module)) or _is_user_object(v):
                _walk(v, path + "." + k, out, seen, depth + 1)


def _is_user_object(v):
    import xitorch
    return isinstance(v, (xitorch.EditableModule,))


def snapshot(roots):
    """roots: list of (label, object).  Identity, value, type, registration (names + order) of every tensor."""
    out = {"t": {}, "reg": {}, "c": {}}
    seen = set()
    for label, obj in roots:
        _walk(obj, label, out, seen)
    return out


def diff_snapshots(a, b):
    """first difference as (kind, message) or None.  kinds: identity, value, type, registration, structure"""
    for path in a["reg"]:
        if path not in b["reg"]:
            return ("structure", "module %s disappeared" % path)
        ra, rb = a["reg"][path], b["reg"][path]
        for key in ("params", "named_parameters", "buffers", "modules"):
            if ra[key] != rb[key]:
                na, nb = [x[0] for x in ra[key]], [x[0] for x in rb[key]]
                if na != nb:
                    if sorted(map(str, na)) == sorted(map(str, nb)):
                        return ("registration_order", "%s: %s order %s -> %s" % (path, key, na, nb))
                    return ("registration", "%s: %s names %s -> %s" % (path, key, na, nb))
                return ("identity", "%s: %s hold other objects (or another type) than before: %s -> %s" % (
                    path, key, [x[1:] for x in ra[key]], [x[1:] for x in rb[key]]))
    if set(a["c"].items()) != set(b["c"].items()):
        d = sorted(set(a["c"].items()) ^ set(b["c"].items()), key=str)
        return ("structure", "containers changed: %s" % (d[:4],))
    ka, kb = set(a["t"]), set(b["t"])
    if ka != kb:
        return ("structure", "tensor slots changed: missing %s, new %s" % (sorted(ka - kb)[:4], sorted(kb - ka)[:4]))
    for path in a["t"]:
        ea, eb = a["t"][path], b["t"][path]
        if ea["id"] != eb["id"]:
            return ("identity", "%s holds another tensor object than before (%s -> %s)" % (path, ea["type"], eb["type"]))
        for key in ("type", "param", "req", "leaf", "shape", "dtype"):
            if ea[key] != eb[key]:
                return ("type", "%s: %s changed %r -> %r" % (path, key, ea[key], eb[key]))
        if not torch.equal(ea["val"], eb["val"]):
            return ("value", "%s: value changed by %.3e" % (path, _absdiff(ea["val"], eb["val"])))
    return None


def _absdiff(a, b):
    """largest absolute difference, for the message only (bool / float8 / integer tensors do not support subtraction or abs)"""
    if a.shape != b.shape or a.numel() == 0:
        return float("nan")
    ca, cb = ((a.to(torch.complex128), b.to(torch.complex128)) if a.dtype.is_complex else (a.to(torch.float64), b.to(torch.float64)))
    return float((ca - cb).abs().max())


# =============================================================================================== function kinds

EXTRA_KINDS = ["em_nn_part", "nn_tied"]


def build_fn(core, leaves, spec, counter):
    """gen.build_function plus the two C10-specific kinds.  Returns (fcn, params, info)."""
    import xitorch
    kind = spec["kind"]
    if kind in EXTRA_KINDS_R3:
        return _build_fn_r3(core, leaves, spec, counter)
    if kind not in EXTRA_KINDS:
        return gen.build_function(core, leaves, spec, counter)
    derive = spec["derive"]
    neff = len(derive)
    scale = float(spec.get("scale", 1.0))
    info = {"obj": None, "objs": [], "unused": None, "counter": counter}

    def held_effs(getleaf):
        effs = []
        for rec in derive:
            if rec[0] == "alias":
                effs.append(effs[rec[1]])
            else:
                effs.append(gen.derive_one(rec, {i: getleaf(i) for i in rec[1:]}, effs))
        return effs

    nle = len(leaves)
    if kind == "em_nn_part":
        # the held module has two parameters the method does not use (first and in between), and the names
        # are listed in reverse registration order
        class Holder(torch.nn.Module):
            def __init__(self):
                super().__init__()
                self.z0 = torch.nn.Parameter(torch.full((2,), 0.25, dtype=DT))
                for i in range(nle):
                    setattr(self, "p%d" % i, leaves[i])
                    if i == 0:
                        self.z1 = torch.nn.Parameter(torch.full((1,), -0.5, dtype=DT))
                self.register_buffer("buf", torch.ones((), dtype=DT))

        class EMPart(xitorch.EditableModule):
            def __init__(self):
                self.mod = Holder()

            def evaluate(self, *args):
                counter.tick()
                eff = held_effs(lambda i: getattr(self.mod, "p%d" % i))
                return core(args, eff, scale)

            def getparamnames(self, methodname, prefix=""):
                if methodname != "evaluate":
                    raise KeyError(methodname)
                order = list(range(nle))[::-1] if spec.get("reverse", True) else list(range(nle))
                return [prefix + "mod.p%d" % i for i in order]
        obj = EMPart()
        info["obj"] = obj
        info["objs"] = [obj, obj.mod]
        return obj.evaluate, (), info

    if kind == "nn_tied":
        class Tied(torch.nn.Module):
            def __init__(self):
                super().__init__()
                for i in range(nle):
                    setattr(self, "p%d" % i, leaves[i])
                self.tied = leaves[0]            # the same Parameter under a second name

            def _leaf(self, i):
                if i == 0:          # mathematically p0, read through both names
                    return 0.5 * (self.p0 + self.tied)
                return getattr(self, "p%d" % i)

            def forward(self, *args):
                counter.tick()
                return core(args, held_effs(self._leaf), scale)
        m = Tied()
        info["obj"] = m
        info["objs"] = [m]
        return m, (), info
    raise ValueError(kind)


def make_leaves(values, req, kind):
    if kind in EXTRA_KINDS:
        return [torch.nn.Parameter(v.clone(), requires_grad=bool(r)) for v, r in zip(values, req)]
    return gen.make_leaves(values, req, kind)


# ----------------------------------------------------------------------------------------------- round-3 kinds
# em_mixed: EditableModule holding, next to its float64 tensors, tensors of OTHER dtypes (declared in getparamnames or
#           not) as attributes / in a list / in a dict / as Parameters of a held nn.Module, at drawn places of the attribute order.
# em_map:   EditableModule whose declared names (attributes, list items, dict items) refer to fewer distinct tensors:
#           spec["amap"][k] = index of the distinct tensor under the k-th name (an arbitrary surjection, canonical numbering).

EXTRA_KINDS_R3 = ["em_mixed", "em_map"]

DTYPE_NAMES = ["bfloat16", "float16", "float32", "float64", "complex128", "complex64", "int64", "int32", "uint8", "bool",
               "float8_e5m2", "float8_e4m3fn"]
# dtypes EditableModule.assertparams (debug mode) accepts for a *declared* name (its "Parameter ... is a non-floating point tensor" rule)
DECLARABLE_DTYPES = ["float16", "float32", "float64"]


def canon_map(raw):
    """numbering by first occurrence: [3, 3, 0, 1, 0] -> [0, 0, 1, 2, 1] (a surjection onto 0..U-1)"""
    seen, out = {}, []
    for r in raw:
        out.append(seen.setdefault(int(r), len(seen)))
    return out


def extra_tensor(k, dtname, req=False):
    """the k-th other-dtype tensor of an object (shape (2,), values exactly representable in every dtype)"""
    dt = getattr(torch, dtname)
    if dtname == "bool":
        t = torch.tensor([True, k % 2 == 0])
    elif dt.is_complex:
        t = torch.complex(torch.tensor([0.5 + 0.25 * k, 1.0], dtype=DT), torch.tensor([0.25, -0.5], dtype=DT)).to(dt)
    elif dt.is_floating_point:
        t = torch.tensor([0.5 + 0.25 * k, 1.0], dtype=DT).to(dt)
    else:
        t = torch.tensor([k + 1, 2]).to(dt)
    if req and dt.is_floating_point and not dtname.startswith("float8"):
        t.requires_grad_()
    return t


def extra_value(t):
    """what a method does with such a tensor: a float64 number"""
    if t.dtype.is_complex:
        return t.real.to(DT).sum() + 0.5 * t.imag.to(DT).sum()
    return t.to(DT).sum()


def _build_fn_r3(core, leaves, spec, counter):
    import xitorch
    from xitorch._utils.attr import get_attr
    kind = spec["kind"]
    derive = spec["derive"]
    neff = len(derive)
    explicit = list(spec.get("explicit") or [False] * neff)
    scale = float(spec.get("scale", 1.0))
    nontensor = bool(spec.get("nontensor", False))
    unused_mode = spec.get("unused")
    unused_t = torch.full((2,), 0.37, dtype=DT).requires_grad_() if unused_mode else None
    eff_out = gen.derive_all(derive, leaves)
    obj_idx = [j for j in range(neff) if not explicit[j]]
    exp_idx = [j for j in range(neff) if explicit[j]]
    params = [eff_out[j] for j in exp_idx]
    if unused_mode == "explicit":
        params.append(unused_t)
    if nontensor:
        params.append(scale)

    def assemble(held, args):
        ntail = len(params)
        xs = args[:len(args) - ntail] if ntail else args
        tail = args[len(args) - ntail:] if ntail else ()
        eff = [None] * neff
        for k, j in enumerate(exp_idx):
            eff[j] = tail[k]
        for j in obj_idx:
            eff[j] = held[j]
        return xs, eff, (tail[-1] if nontensor else scale)

    info = {"obj": None, "objs": [], "unused": unused_t, "counter": counter, "extra_wrt": []}
    # layout: ordered list of (attribute name, value) set in __init__; names: every declared name in order
    attrs, declared = [], []
    fac_names = []          # (name, coefficient) of tensors entering through the factor 1 + 0.01 * sum(c * value)
    held_names = {}         # j -> [(name, weight)]: eff j = weighted mean of the tensors under these names

    if kind == "em_mixed":
        order = ["t%d" % j for j in obj_idx] + (["unused"] if unused_mode == "object" else [])
        values = {"t%d" % j: eff_out[j] for j in obj_idx}
        if unused_mode == "object":
            values["unused"] = unused_t
        declared = list(order)
        for j in obj_idx:
            held_names[j] = [("t%d" % j, 1.0)]
        modparams = []
        for k, ex in enumerate(spec.get("extras", [])):
            t = extra_tensor(k, ex["dt"], req=bool(ex.get("req")) and bool(ex.get("decl")))
            where = ex["where"]
            if where == "attr":
                attr, name = "x%d" % k, "x%d" % k
                values[attr] = t
            elif where == "list":
                attr = "xl"
                values.setdefault(attr, [])
                name = "xl[%d]" % len(values[attr])
                values[attr].append(t)
            elif where == "dict":
                attr, name = "xd", "xd['e%d']" % k
                values.setdefault(attr, {})["e%d" % k] = t
            elif where == "mod":
                attr, name = "xm", "xm.x%d" % k
                t = torch.nn.Parameter(t.detach(), requires_grad=t.requires_grad)
                modparams.append(("x%d" % k, t))
            else:
                raise ValueError(where)
            if attr not in order:
                order.insert(int(ex["pos"]) % (len(order) + 1), attr)
            if t.requires_grad:
                info["extra_wrt"].append(t)
            fac_names.append((name, 1.0 + 0.5 * k))
            if ex.get("decl"):          # listed in getparamnames, at a drawn place of the list
                declared.insert(int(ex.get("declpos", len(declared))) % (len(declared) + 1), name)
        if modparams:
            class XHolder(torch.nn.Module):
                def __init__(self):
                    super().__init__()
                    for nm, p_ in modparams:
                        setattr(self, nm, p_)
            values["xm"] = XHolder()
        attrs = [(a, values[a]) for a in order]
    elif kind == "em_map":
        amap = [int(u) for u in spec["amap"]]
        K, U = len(amap), max(amap) + 1
        if amap != canon_map(amap) or not 1 <= len(obj_idx) <= U:
            raise ValueError("em_map: amap %r must be canonical and cover the %d object-held tensors" % (amap, len(obj_idx)))
        nwhere = list(spec.get("nwhere") or [0] * K)
        T = [eff_out[j] for j in obj_idx]
        for u in range(len(obj_idx), U):        # further tensors of the object: leaves of their own
            f = torch.full((2,), 0.1 * (u + 1), dtype=DT).requires_grad_()
            T.append(f)
            info["extra_wrt"].append(f)
        lst, dct = [], {}
        for k in range(K):
            if nwhere[k] == 1:
                name = "lst[%d]" % len(lst)
                lst.append(T[amap[k]])
                if len(lst) == 1:
                    attrs.append(("lst", lst))
            elif nwhere[k] == 2:
                name = "dct['k%d']" % k
                dct["k%d" % k] = T[amap[k]]
                if len(dct) == 1:
                    attrs.append(("dct", dct))
            else:
                name = "a%d" % k
                attrs.append((name, T[amap[k]]))
            declared.append(name)
            if amap[k] < len(obj_idx):
                held_names.setdefault(obj_idx[amap[k]], []).append((name, float(k + 1)))
            else:
                fac_names.append((name, float(k + 1)))
        if unused_mode == "object":
            attrs.append(("unused", unused_t))
            declared.append("unused")
    else:
        raise ValueError(kind)

    class EMFun3(xitorch.EditableModule):
        def __init__(self):
            for a, v in attrs:
                setattr(self, a, v)

        def evaluate(self, *args):
            counter.tick()
            held = {}
            for j, lst_ in held_names.items():
                if len(lst_) == 1:
                    held[j] = get_attr(self, lst_[0][0])
                else:
                    held[j] = sum(w * get_attr(self, nm) for nm, w in lst_) / sum(w for _, w in lst_)
            xs, eff, sc = assemble(held, args)
            out = core(xs, eff, sc)
            if fac_names:
                fac = 1.0 + 0.01 * sum(c * extra_value(get_attr(self, nm)) for nm, c in fac_names)
                out = out * fac if isinstance(out, torch.Tensor) else tuple(o * fac for o in out)
            return out

        def getparamnames(self, methodname, prefix=""):
            if methodname != "evaluate":
                raise KeyError(methodname)
            return [prefix + nm for nm in declared]
    obj = EMFun3()
    info["obj"] = obj
    info["objs"] = [obj] + ([obj.xm] if hasattr(obj, "xm") else [])
    if spec.get("sib"):     # through a caller-held sibling PureFunction (as kind sib1)
        @xitorch.make_sibling(obj.evaluate)
        def sib(*args):
            return obj.evaluate(*args)
        info["keep"] = sib
        return sib, tuple(params), info
    return obj.evaluate, tuple(params), info


# =============================================================================================== linear operators

LINOP_KINDS = ["attr", "alias", "cont", "nnheld"]
LINOP_IMPLS = ["mv", "mv_rmv", "mv_mm", "all"]


def make_linop(kind, impl, hermitian, A0, d0, counter, n):
    """user LinearOperator (fresh class) realising  Mat = 0.3*S(A0) + diag(2 + d0^2)  (S = symmetrised if hermitian).
    A0, d0 are the leaves; the operator holds *derived* tensors (or, kind nnheld, a module holding the leaves).
    Returns (operator, roots_for_snapshot)."""
    import xitorch

    def mat_of(P, d):
        return P + torch.diag_embed(d)

    def derive(A0_, d0_):
        P = 0.3 * (A0_ + A0_.transpose(-2, -1)) * 0.5 if hermitian else 0.3 * A0_
        return P, 2.0 + d0_ * d0_

    class Op(xitorch.LinearOperator):
        def __init__(self):
            super().__init__(shape=(n, n), is_hermitian=hermitian, dtype=DT)
            if kind == "nnheld":
                class Holder(torch.nn.Module):
                    def __init__(s):
                        super().__init__()
                        s.z0 = torch.nn.Parameter(torch.full((2,), 0.25, dtype=DT))
                        s.A0 = A0
                        s.z1 = torch.nn.Parameter(torch.full((1,), -0.5, dtype=DT))
                        s.d0 = d0
                self.mod = Holder()
            else:
                P, d = derive(A0, d0)
                if kind == "attr":
                    self.P, self.d = P, d
                elif kind == "alias":
                    self.P, self.d, self.d2 = P, d, d
                elif kind == "cont":
                    self.lst = [P]
                    self.dct = {"d": d}

        def _mat(self):
            if kind == "nnheld":
                return mat_of(*derive(self.mod.A0, self.mod.d0))
            if kind == "attr":
                return mat_of(self.P, self.d)
            if kind == "alias":
                return mat_of(self.P, 0.5 * (self.d + self.d2))
            return mat_of(self.lst[0], self.dct["d"])

        def _getparamnames(self, prefix=""):
            names = {"attr": ["P", "d"], "alias": ["P", "d", "d2"], "cont": ["lst[0]", "dct['d']"],
                     "nnheld": ["mod.d0", "mod.A0"]}[kind]
            return [prefix + nm for nm in names]

        def _mv(self, x):
            counter.tick()
            return torch.matmul(self._mat(), x.unsqueeze(-1)).squeeze(-1)

    if impl in ("mv_rmv", "all"):
        def _rmv(self, x):
            counter.tick()
            return torch.matmul(self._mat().transpose(-2, -1), x.unsqueeze(-1)).squeeze(-1)
        Op._rmv = _rmv
    if impl in ("mv_mm", "all"):
        def _mm(self, x):
            counter.tick()
            return torch.matmul(self._mat(), x)
        Op._mm = _mm
    if impl == "all":
        def _rmm(self, x):
            counter.tick()
            return torch.matmul(self._mat().transpose(-2, -1), x)

        def _fullmatrix(self):
            counter.tick()
            return self._mat()
        Op._rmm = _rmm
        Op._fullmatrix = _fullmatrix
    op = Op()
    return op


# ----------------------------------------------------------------------------------------------- round-3 operator kinds
# map:  one user LinearOperator whose K parameter names q0..q{K-1} refer to U <= K distinct tensors (amap: arbitrary surjection)
# comp: an operator composed (matmul / + / scalar * / .H, drawn association) of K user leaf operators that share U distinct
#       tensors: the parameter-name list of the composite is the leaf sequence, i.e. again an arbitrary surjection

LINOP_KINDS_R3 = ["map", "comp"]


def _add_products(cls, impl, counter):
    """product methods of a user operator class that has _mat(); every one ticks the evaluation counter"""
    def _mv(self, x):
        counter.tick()
        return torch.matmul(self._mat(), x.unsqueeze(-1)).squeeze(-1)
    cls._mv = _mv
    if impl in ("mv_rmv", "all"):
        def _rmv(self, x):
            counter.tick()
            return torch.matmul(self._mat().transpose(-2, -1), x.unsqueeze(-1)).squeeze(-1)
        cls._rmv = _rmv
    if impl in ("mv_mm", "all"):
        def _mm(self, x):
            counter.tick()
            return torch.matmul(self._mat(), x)
        cls._mm = _mm
    if impl == "all":
        def _rmm(self, x):
            counter.tick()
            return torch.matmul(self._mat().transpose(-2, -1), x)

        def _fullmatrix(self):
            counter.tick()
            return self._mat()
        cls._rmm = _rmm
        cls._fullmatrix = _fullmatrix
    return cls


def comp_structure(K, tree):
    """terms (lists of leaf indices), per-term right-association flags, sum association, per-term factor"""
    tree = tree or {}
    cuts = list(tree.get("cuts") or [])
    terms, cur = [], [0]
    for k in range(1, K):
        if k - 1 < len(cuts) and cuts[k - 1]:
            terms.append(cur)
            cur = []
        cur.append(k)
    terms.append(cur)
    assoc = int(tree.get("assoc", 0))
    scl = list(tree.get("scl") or [])
    factors = [[1.0, 0.5, 2.0][int(scl[t[0]]) % 3] if t[0] < len(scl) else 1.0 for t in terms]
    return terms, [bool((assoc >> i) & 1) for i in range(len(terms))], bool((assoc >> 7) & 1), factors


def compose(K, tree, mkleaf, hermitian):
    """the composite of K leaf operators described by `tree`: sum (drawn association) of terms, each term a product chain (drawn
    association) of consecutive leaves times a factor; mkleaf(k, use_adj) returns the k-th leaf operator (through .H if use_adj).
    The leaves must commute and be symmetric (diagonal), so that every product is symmetric.  Where the composite must be flagged
    Hermitian (symeig, cg: `hermitian`), only leaves inside a product are used through .H (a product carries its own flag)."""
    tree = tree or {}
    adj = list(tree.get("adj") or [])
    terms, rassoc, sum_right, factors = comp_structure(K, tree)
    built = []
    for ti, term in enumerate(terms):
        ops = [mkleaf(k, k < len(adj) and bool(adj[k]) and (len(term) >= 2 or not hermitian)) for k in term]
        if rassoc[ti]:
            node = ops[-1]
            for o in ops[-2::-1]:
                node = o.matmul(node, is_hermitian=True)
        else:
            node = ops[0]
            for o in ops[1:]:
                node = node.matmul(o, is_hermitian=True)
        if factors[ti] != 1.0:
            node = node * factors[ti]
        built.append(node)
    if sum_right:
        A = built[-1]
        for o in built[-2::-1]:
            A = o + A
    else:
        A = built[0]
        for o in built[1:]:
            A = A + o
    return A


def make_linop_r3(kind, impl, hermitian, A0, d0, counter, n, amap, tree=None):
    import xitorch
    amap = [int(u) for u in amap]
    K, U = len(amap), max(amap) + 1
    if amap != canon_map(amap):
        raise ValueError("amap must be numbered by first occurrence: %r" % (amap,))
    P = 0.3 * (A0 + A0.transpose(-2, -1)) * 0.5 if hermitian else 0.3 * A0
    if kind == "map":
        d = 2.0 + d0 * d0
        D = [P + torch.diag_embed(d)] if U == 1 else [P, d, 0.1 * d0 * d0 + 0.05, 0.05 * torch.tanh(A0.diagonal()) + 0.1][:U]
        groups = [[k for k in range(K) if amap[k] == u] for u in range(U)]

        class MapOp(xitorch.LinearOperator):
            def __init__(self):
                super().__init__(shape=(n, n), is_hermitian=hermitian, dtype=DT)
                for k in range(K):
                    setattr(self, "q%d" % k, D[amap[k]])

            def _mat(self):
                total = None
                for ks in groups:        # each distinct tensor is read through all of its names
                    if len(ks) == 1:
                        t = getattr(self, "q%d" % ks[0])
                    else:
                        t = sum((k + 1.0) * getattr(self, "q%d" % k) for k in ks) / sum(k + 1.0 for k in ks)
                    t = t if t.dim() >= 2 else torch.diag_embed(t)
                    total = t if total is None else total + t
                return total

            def _getparamnames(self, prefix=""):
                return [prefix + "q%d" % k for k in range(K)]
        return _add_products(MapOp, impl, counter)()
    if kind != "comp":
        raise ValueError(kind)
    tree = tree or {}
    # positive, bounded diagonals (0.8 .. 1.3): every sum of products of them is symmetric positive definite
    T = [1.05 + 0.25 * torch.tanh(d0), 1.05 + 0.25 * torch.tanh(A0.diagonal()), 1.05 + 0.25 * torch.sin(d0),
         1.05 + 0.25 * torch.cos(A0[0])][:U]

    class Leaf(xitorch.LinearOperator):
        def __init__(self, t, herm):
            super().__init__(shape=(n, n), is_hermitian=herm, dtype=DT)
            self.d = t

        def _mat(self):
            return torch.diag_embed(self.d) if self.d.dim() == 1 else self.d

        def _getparamnames(self, prefix=""):
            return [prefix + "d"]
    _add_products(Leaf, impl, counter)
    def mkleaf(k, use_adj):
        # a leaf used through .H is declared non-Hermitian (the flag only allows short-cuts, it claims nothing when False)
        lf = Leaf(T[amap[k]], not use_adj)
        return lf.H if use_adj else lf
    A = compose(K, tree, mkleaf, hermitian)
    if tree.get("dense"):
        A = A + Leaf(0.15 * P, hermitian)
    return A


# =============================================================================================== problems

_DEVNULL = [None]


def _quiet_stdout():
    """documented `verbose=True` options print their progress: send it to the null device (one process-wide handle)"""
    import contextlib
    if _DEVNULL[0] is None:
        _DEVNULL[0] = open(os.devnull, "w")
    return contextlib.redirect_stdout(_DEVNULL[0])


class Problem:
    """one tiny instance of a functional; built fresh for every run"""

    def __init__(self):
        self.roots = []         # (label, obj) the caller's objects
        self.wrt = []           # tensors to differentiate with respect to
        self.pfuncs = []        # caller-held PureFunction objects (siblings) for the restore-stack check
        self.counter = None
        self.forward = None     # () -> tuple of tensors
        self.probe = None       # () -> list of tensors: evaluates the caller's object once (counter paused)
        self.keep = []          # things to keep alive
        self.marks = [0]
        self.attached = False   # the last forward returned a tensor attached to an autograd graph
        self.retain = False     # the objects hold derived (non-leaf) tensors computed once: repeated backward passes
                                # through that derivation need retain_graph=True


def _cores(functional, m):
    """core(xs, eff, scale) per functional; eff = [a, c] (shape (m,))"""
    def as_t(x):
        return torch.as_tensor(x, dtype=DT)

    if functional in ("rootfinder", "jacsolve"):
        return lambda xs, eff, s: s * (xs[0] - 0.4 * torch.tanh(eff[0] * xs[0] + eff[1]))
    if functional == "equilibrium":
        return lambda xs, eff, s: 0.4 * torch.tanh(eff[0] * xs[0] + s * eff[1])
    if functional == "minimize":
        return lambda xs, eff, s: (((xs[0] - eff[1]) ** 2) * (1.0 + eff[0] * eff[0])).sum() * abs(s)
    if functional == "solve_ivp":
        return lambda xs, eff, s: s * (-eff[0] * xs[1] + eff[1] * torch.sin(as_t(xs[0])))
    if functional == "quad":
        return lambda xs, eff, s: s * eff[1] * torch.sin(eff[0] * as_t(xs[0]) + 0.3)
    if functional == "mcquad_f":
        return lambda xs, eff, s: s * (eff[0] * xs[0] * xs[0] + eff[1] * xs[0])
    if functional == "mcquad_p":
        return lambda xs, eff, s: -0.5 * ((eff[0] * xs[0]) ** 2).sum() + 0.1 * abs(s) * (eff[1] * xs[0]).sum()
    if functional == "jac":
        return lambda xs, eff, s: s * torch.tanh(eff[0] * xs[0] + eff[1])
    if functional == "hess":
        return lambda xs, eff, s: s * (torch.tanh(eff[0] * xs[0] + eff[1]) ** 2).sum()
    raise ValueError(functional)


def build_fcn_problem(case, counter):
    """case: {"functional","method","spec","m","req":[b,b],"seed", optional "opts"}"""
    import xitorch
    from xitorch import optimize, integrate, linalg, grad as xgrad
    functional, method, spec, m = case["functional"], case["method"], case["spec"], case["m"]
    g = gen.seeded(case["seed"])
    values = [0.5 + torch.rand((m,), generator=g, dtype=DT), 0.5 * torch.randn((m,), generator=g, dtype=DT)]
    leaves = make_leaves(values, case["req"], spec["kind"])
    pb = Problem()
    pb.counter = counter
    role = case.get("role", "f")
    corename = functional if functional != "mcquad" else "mcquad_" + role
    core = _cores(corename, m)
    fcn, params, info = build_fn(core, leaves, spec, counter)
    pb.keep.append((fcn, info))
    inside = spec["kind"] in ("nn", "nn_nested", "em_nn", "nn_tied", "em_nn_part")
    explicit = spec.get("explicit") or [spec["kind"] == "pure"] * len(spec["derive"])
    pb.retain = any(rec[0] not in ("id", "alias") and (not inside or explicit[j] or spec["kind"] == "pure")
                    for j, rec in enumerate(spec["derive"]))
    pb.roots = [("obj%d" % i, o) for i, o in enumerate(info["objs"])] + [("leaves", leaves), ("params", list(params))]
    pb.wrt = [l for l in leaves if l.requires_grad]
    if info.get("unused") is not None:
        pb.wrt.append(info["unused"])
        pb.roots.append(("unused", info["unused"]))
    pb.wrt += list(info.get("extra_wrt", []))       # round-3 kinds: further differentiable tensors held by the object
    if isinstance(fcn, xitorch._core.pure_function.PureFunction):
        pb.pfuncs.append(fcn)
    y0 = (0.1 * torch.randn((m,), generator=g, dtype=DT))
    pb.roots.append(("y0", y0))
    maxiter = int(case.get("maxiter", 4))

    def probe_args():
        if functional == "solve_ivp":
            return (torch.tensor(0.1, dtype=DT), y0)
        if functional in ("quad",):
            return (torch.tensor(0.2, dtype=DT),)
        return (y0,)

    xopts = dict(case.get("xopts") or {})      # rarely used documented options of the method (C19: verbose=True, ...)

    if functional == "rootfinder":
        def forward():
            with _quiet_stdout():
                return (optimize.rootfinder(fcn, y0, params=params, method=method, maxiter=maxiter, **xopts),)
    elif functional == "equilibrium":
        def forward():
            with _quiet_stdout():
                return (optimize.equilibrium(fcn, y0, params=params, method=method, maxiter=maxiter, **xopts),)
    elif functional == "minimize":
        def forward():
            kw = {"step": 0.05} if method in ("gd", "adam") else {}
            with _quiet_stdout():
                return (optimize.minimize(fcn, y0, params=params, method=method, maxiter=maxiter, **kw, **xopts),)
    elif functional == "solve_ivp":
        ts = torch.linspace(0.0, 0.3, int(case.get("nt", 2)), dtype=DT)
        if int(case.get("tsdir", 1)) < 0:
            ts = ts.flip(0).contiguous()
        pb.roots.append(("ts", ts))

        def forward():
            return (integrate.solve_ivp(fcn, ts, y0, params=params, method=method),)
    elif functional == "quad":
        xl = torch.tensor(-0.3, dtype=DT)
        xu = torch.tensor(0.9, dtype=DT, requires_grad=bool(case.get("limgrad", False)))
        if xu.requires_grad:
            pb.wrt.append(xu)
        pb.roots.append(("lim", [xl, xu]))

        def forward():
            return (integrate.quad(fcn, xl, xu, params=params, n=int(case.get("n", 3))),)
    elif functional == "mcquad":
        s = torch.tensor(0.8, dtype=DT, requires_grad=True)
        pb.wrt.append(s)
        pb.roots.append(("s", s))
        x0 = y0 if method != "_dummy1d" else y0[:1]

        def other_f(x, s_):
            counter.tick()
            return s_ * x

        def other_p(x, s_):
            counter.tick()
            return -0.5 * ((s_ * x) ** 2).sum()
        if method == "mh":
            opts = {"nsamples": int(case.get("ns", 4)), "nburnout": 2, "step_size": 0.7}
        else:
            opts = {"nsamples": int(case.get("ns", 4)), "lb": -3.0, "ub": 3.0}

        def forward():
            if role == "f":
                r = integrate.mcquad(fcn, other_p, x0, fparams=params, pparams=(s,), method=method, **opts)
            else:
                r = integrate.mcquad(other_f, fcn, x0, fparams=(s,), pparams=params, method=method, **opts)
            return (r,)
        if method == "_dummy1d":
            def probe_args():  # noqa: F811
                return (y0[:1],)
    elif functional in ("jac", "hess"):
        yv = y0.clone().requires_grad_()
        pb.roots.append(("yv", yv))
        pb.wrt.append(yv)
        v = torch.randn((m,), generator=g, dtype=DT)

        def forward():
            mk = xgrad.jac if functional == "jac" else xgrad.hess
            J = mk(fcn, (yv, *params), idxs=0)
            if method == "mv":
                return (J.mv(v),)
            if method == "rmv":
                return (J.rmv(v),)
            return (J.fullmatrix(),)
    elif functional == "jacsolve":
        yv = y0.clone().requires_grad_()
        pb.roots.append(("yv", yv))
        pb.wrt.append(yv)
        B = torch.randn((m, 1), generator=g, dtype=DT)

        def forward():
            J = xgrad.jac(fcn, (yv, *params), idxs=0)
            kw = {} if method == "exactsolve" else {"max_niter": maxiter}
            return (linalg.solve(J, B, method=method, **kw),)
    else:
        raise ValueError(functional)
    pb.forward = forward

    def probe():
        saved = (counter.n, counter.fail_at)
        counter.fail_at = None
        try:
            with torch.enable_grad():
                out = fcn(*probe_args(), *params)
        finally:
            counter.n, counter.fail_at = saved
        outs = (out,) if isinstance(out, torch.Tensor) else tuple(out)
        return [o.detach().clone() for o in outs]
    pb.probe = probe
    return pb


def build_op_problem(case, counter):
    """case: {"functional" in solve|symeig,"method","lkind","impl","n","req":[b,b],"seed","useM":bool,"useE":bool, "ncols"}"""
    from xitorch import linalg
    functional, method, n = case["functional"], case["method"], case["n"]
    g = gen.seeded(case["seed"])
    hermitian = functional == "symeig" or bool(case.get("hermitian", False)) or method == "cg"
    A0v = torch.randn((n, n), generator=g, dtype=DT)
    d0v = torch.randn((n,), generator=g, dtype=DT)
    if case["lkind"] == "nnheld":
        A0 = torch.nn.Parameter(A0v, requires_grad=bool(case["req"][0]))
        d0 = torch.nn.Parameter(d0v, requires_grad=bool(case["req"][1]))
    else:
        A0 = A0v.requires_grad_(bool(case["req"][0]))
        d0 = d0v.requires_grad_(bool(case["req"][1]))
    pb = Problem()
    pb.counter = counter
    if case["lkind"] == "m":
        # the usual idiom: a fresh LinearOperator.m(matrix) per call (C19 only; no user callback to inject into)
        A = None
    else:
        if case["lkind"] in LINOP_KINDS_R3:
            A = make_linop_r3(case["lkind"], case["impl"], hermitian, A0, d0, counter, n, case["amap"], case.get("tree"))
        else:
            A = make_linop(case["lkind"], case["impl"], hermitian, A0, d0, counter, n)
    pb.roots = [("A", A), ("leaves", [A0, d0])]
    pb.retain = case["lkind"] in ("attr", "alias", "cont", "map", "comp")
    pb.wrt = [t for t in (A0, d0) if t.requires_grad]
    M = None
    m0 = None
    if case.get("useM"):
        m0 = torch.randn((n,), generator=g, dtype=DT).requires_grad_()
        Z = torch.zeros((n, n), dtype=DT)
        M = make_linop("attr", "all", True, Z, m0, counter, n)      # diag(2 + m0^2): SPD
        pb.roots += [("M", M), ("m0", m0)]
        pb.retain = True
        pb.wrt.append(m0)
    fresh_m = bool(case.get("freshM")) and M is not None

    def mkM():
        # freshM: a new operator object for M on every call (the normal idiom when M depends on parameters) - anything the
        # library keeps per operator *object* then grows with the number of calls
        if not fresh_m:
            return M
        import xitorch
        return xitorch.LinearOperator.m(torch.diag_embed(2.0 + m0 * m0), is_hermitian=True)
    maxiter = int(case.get("maxiter", 4))
    ncols = int(case.get("ncols", 1))

    def mkA():
        if A is not None:
            return A
        import xitorch
        P = 0.3 * (A0 + A0.transpose(-2, -1)) * 0.5 if hermitian else 0.3 * A0
        return xitorch.LinearOperator.m(P + torch.diag_embed(2.0 + d0 * d0), is_hermitian=hermitian)
    if functional == "solve":
        B = torch.randn((n, ncols), generator=g, dtype=DT).requires_grad_(bool(case.get("breq", False)))
        if B.requires_grad:
            pb.wrt.append(B)
        E = None
        if case.get("useE"):
            E = (0.1 * torch.randn((ncols,), generator=g, dtype=DT)).requires_grad_()
            pb.wrt.append(E)
        pb.roots.append(("BE", [B, E]))

        def forward():
            kw = {}
            if method in ("cg", "bicgstab", "gmres"):
                kw = {"max_niter": maxiter}
            elif method == "broyden1":
                kw = {"maxiter": maxiter}
            kw.update(case.get("xopts") or {})
            with _quiet_stdout():
                return (linalg.solve(mkA(), B, E=E, M=(mkM() if E is not None else None), method=method, **kw),)
    else:
        neig = int(case.get("neig", 1))
        mode = case.get("mode", "lowest")

        def forward():
            kw = {"max_niter": maxiter} if method == "davidson" else {}
            kw.update(case.get("xopts") or {})
            with _quiet_stdout():
                evals, evecs = linalg.symeig(mkA(), neig=neig, mode=mode, M=mkM(), method=method, **kw)
            # eigenvector sign is irrelevant here: the same call is compared with itself only
            return (evals, evecs)
    pb.forward = forward

    def probe():
        saved = (counter.n, counter.fail_at)
        counter.fail_at = None
        try:
            x = torch.linspace(-1.0, 1.0, n, dtype=DT)
            out = [mkA().mv(x).detach().clone()]
            if M is not None:
                out.append(M.mv(x).detach().clone())
        finally:
            counter.n, counter.fail_at = saved
        return out
    pb.probe = probe
    return pb


def build_misc_problem(case, counter):
    """Interp1D / SQuad: no user callable; case: {"functional","method","npts","seed","yat"}"""
    from xitorch.interpolate import Interp1D
    from xitorch.integrate import SQuad
    functional, method = case["functional"], case["method"]
    g = gen.seeded(case["seed"])
    npts = int(case.get("npts", 6))
    x = torch.cumsum(0.2 + torch.rand((npts,), generator=g, dtype=DT), dim=0)
    y = torch.randn((2, npts), generator=g, dtype=DT).requires_grad_()
    pb = Problem()
    pb.counter = counter
    pb.roots = [("xy", [x, y])]
    pb.wrt = [y]
    if functional == "interp1d":
        xq = (x[0] + (x[-1] - x[0]) * torch.rand((5,), generator=g, dtype=DT)).requires_grad_(method == "cspline")
        if xq.requires_grad:
            pb.wrt.append(xq)
        held = Interp1D(x, method=method) if case.get("yat") == "call_held" else None

        def forward():
            if case.get("yat") == "init":
                return (Interp1D(x, y, method=method)(xq),)
            if held is not None:
                return (held(xq, y),)
            return (Interp1D(x, method=method)(xq, y),)
    else:
        held = SQuad(x, method=method) if case.get("yat") == "call_held" else None

        def forward():
            sq = held if held is not None else SQuad(x, method=method)
            return (sq.integrate(y, dim=-1), sq.cumsum(y, dim=-1))
    pb.forward = forward
    pb.probe = lambda: []
    return pb


MISC_FUNCTIONALS = ["interp1d", "squad"]
METHODS["interp1d"] = ["cspline", "linear"]
METHODS["squad"] = ["cspline", "trapz", "simpson"]


def build_problem(case, counter):
    if case["functional"] in OP_FUNCTIONALS:
        return build_op_problem(case, counter)
    if case["functional"] in MISC_FUNCTIONALS:
        return build_misc_problem(case, counter)
    return build_fcn_problem(case, counter)


# =============================================================================================== phases

def run_phases(pb, phase, wseed=0):
    """phase 0: forward; 1: + backward; 2: + graph-recording backward and a second backward; 3: graph-recording backward whose
    graph is dropped without ever being differentiated (the second backward of phase 2 can break cycles that phase 3 leaves).
    Returns the list of detached results (None for absent gradients)."""
    g = gen.seeded(wseed)
    outs = pb.forward()
    pb.attached = any(o.requires_grad for o in outs)
    pb.marks = [pb.counter.n]        # evaluations of the user's code up to the end of each stage
    res = [o.detach().clone() for o in outs]
    if phase == 0 or not pb.wrt:
        return res
    loss = None
    for o in outs:
        w = torch.randn(o.shape, generator=g, dtype=DT)
        loss = (o * w).sum() if loss is None else loss + (o * w).sum()
    if not loss.requires_grad:
        return res
    gs = torch.autograd.grad(loss, pb.wrt, create_graph=(phase >= 2), allow_unused=True,
                             retain_graph=(True if (pb.retain or phase >= 2) else None))
    res += [None if gi is None else gi.detach().clone() for gi in gs]
    pb.marks.append(pb.counter.n)
    if phase == 2:
        terms = None
        for gi in gs:
            c = None if gi is None else torch.randn(gi.shape, generator=g, dtype=DT)
            if gi is not None and gi.requires_grad:
                terms = (gi * c).sum() if terms is None else terms + (gi * c).sum()
        if terms is not None:
            g2 = torch.autograd.grad(terms, pb.wrt, allow_unused=True, retain_graph=(True if pb.retain else None))
            res += [None if gi is None else gi.detach().clone() for gi in g2]
    return res


def same_results(a, b):
    if len(a) != len(b):
        return "number of results %d vs %d" % (len(a), len(b))
    for i, (x, y) in enumerate(zip(a, b)):
        if (x is None) != (y is None):
            return "result %d: gradient present vs absent" % i
        if x is None:
            continue
        if x.shape != y.shape or not torch.equal(x, y):
            if x.shape == y.shape and bool(torch.isnan(x).any()) and torch.equal(torch.nan_to_num(x, nan=7.0), torch.nan_to_num(y, nan=7.0)):
                continue
            return "result %d differs by %.3e" % (i, float((x - y).abs().max()) if x.shape == y.shape else float("nan"))
    return None
