"""Reference models shared by the solve_ivp checks (C07 values, C08 sensitivities).

Independent of xitorch:
  * textbook Euler / classical RK4 / 3-8-rule steps written in their textbook (k1..k4) form,
  * SciPy's `rk_step` on SciPy's RK23 / RK45 class attributes A, B, C, E (embedded pairs + error weights),
  * ODE families with closed-form solutions that are plain differentiable torch expressions
    (`torch.linalg.matrix_exp`, explicit formulas), so autograd through them gives the exact sensitivities
    to all orders in the parameters, the initial state and every time point (including ts[0]),
  * time grids built from drawn integers (uniform / ragged, both directions, very short to long spans).
"""
from __future__ import annotations

import math

import numpy as np
import torch
from hypothesis import strategies as st

DT = torch.float64
EPS = 2.220446049250313e-16
FIXED = {"euler": 1, "rk4": 4, "rk38": 4}          # method -> declared order
STAGES = {"euler": 1, "rk4": 4, "rk38": 4, "rk23": 3, "rk45": 6}
ADAPTIVE = {"rk23": (3, 2), "rk45": (5, 4)}          # method -> (order of the propagated formula, estimator order)
MAX_CALLS = 400000


class EvalBudget(Exception):
    """the right-hand side was evaluated more often than any terminating run on the generated domain needs"""


# ----------------------------------------------------------------------------------------------
# textbook one-step formulas.  Each returns (y_new, stages) with stages = [(t_j, Y_j, k_j), ...]

def euler_step(f, t, y, h):
    k1 = f(t, y)
    return y + h * k1, [(t, y, k1)]


def rk4_step(f, t, y, h):
    k1 = f(t, y)
    t2 = t + h / 2
    y2 = y + h * k1 / 2
    k2 = f(t2, y2)
    y3 = y + h * k2 / 2
    k3 = f(t2, y3)
    t4 = t + h
    y4 = y + h * k3
    k4 = f(t4, y4)
    ynew = y + h / 6 * (k1 + 2 * k2 + 2 * k3 + k4)
    return ynew, [(t, y, k1), (t2, y2, k2), (t2, y3, k3), (t4, y4, k4)]


def rk38_step(f, t, y, h):
    k1 = f(t, y)
    t2 = t + h / 3
    y2 = y + h * k1 / 3
    k2 = f(t2, y2)
    t3 = t + 2 * h / 3
    y3 = y + h * (k2 - k1 / 3)
    k3 = f(t3, y3)
    t4 = t + h
    y4 = y + h * (k1 - k2 + k3)
    k4 = f(t4, y4)
    ynew = y + h / 8 * (k1 + 3 * k2 + 3 * k3 + k4)
    return ynew, [(t, y, k1), (t2, y2, k2), (t3, y3, k3), (t4, y4, k4)]


TEXTBOOK = {"euler": euler_step, "rk4": rk4_step, "rk38": rk38_step}


def scipy_pair(method):
    from scipy.integrate._ivp import rk
    cls = {"rk23": rk.RK23, "rk45": rk.RK45}[method]
    return cls


def scipy_embedded_step(method, f_np, t, y, f0, h):
    """one step of SciPy's embedded pair: (y_new, f_new, K, err_vector) with err = h * K^T E (SciPy's estimator)"""
    from scipy.integrate._ivp.rk import rk_step
    cls = scipy_pair(method)
    K = np.empty((cls.n_stages + 1, y.size), dtype=np.float64)
    ynew, fnew = rk_step(f_np, t, y, f0, h, cls.A, cls.B, cls.C, K)
    err = np.dot(K.T, cls.E) * h
    return ynew, fnew, K, err


# ----------------------------------------------------------------------------------------------
# time grids

@st.composite
def grid_st(draw, min_nt=2, max_nt=8, spans=("short", "unit", "long"), offsets=(0.0, 0.0, -3.0, 2.5, 100.0)):
    """a grid description: ts = t0 + dir * span * cumsum(incr)/sum(incr); incr are small positive ints (uniform: all 1)"""
    nt = draw(st.integers(min_nt, max_nt))
    ragged = draw(st.booleans())
    incr = [draw(st.integers(1, 9)) for _ in range(nt - 1)] if ragged else [1] * (nt - 1)
    return {"incr": incr, "dir": draw(st.sampled_from([1, 1, -1])), "span": draw(st.sampled_from(list(spans))),
            "sfrac": draw(st.sampled_from([0.3, 0.55, 1.0])), "t0": draw(st.sampled_from(list(offsets)))}


def grid_values(grid, span):
    """python floats of the grid for the total length `span` (> 0)"""
    incr = grid["incr"]
    tot = float(sum(incr))
    out = [float(grid["t0"])]
    acc = 0
    for k in incr:
        acc += k
        out.append(float(grid["t0"]) + grid["dir"] * span * (acc / tot))
    return out


def grid_labels(grid):
    return ["grid=" + ("ragged" if len(set(grid["incr"])) > 1 else "uniform"), "dir=" + ("dec" if grid["dir"] < 0 else "inc"),
            "span=" + grid["span"], "nt=%d" % (len(grid["incr"]) + 1)]


# ----------------------------------------------------------------------------------------------
# state shapes

SHAPES = [[1], [2], [3], [2, 2], [3, 1], [1, 3], [2, 1, 2]]


def split_sizes(n, nparts):
    """deterministic split of the last dimension n into nparts>=1 positive parts (nparts <= n)"""
    base = n // nparts
    sizes = [base] * nparts
    sizes[0] += n - base * nparts
    return sizes


# ----------------------------------------------------------------------------------------------
# generic smooth right-hand side for scheme identity: f(t, y) = tanh(y W^T) + sin(t) y + b,  y: (*batch, n)
# Lipschitz constant in y (max-norm) <= ||W||_inf + 1; |df/dt| <= |y|.

class GenericRHS:
    def __init__(self, seed, n, wscale):
        g = torch.Generator().manual_seed(int(seed) & 0x7FFFFFFF)
        W = torch.randn((n, n), generator=g, dtype=DT)
        self.W = W * (wscale / float(W.abs().sum(dim=1).max()))
        self.b = 0.3 * torch.randn((n,), generator=g, dtype=DT)
        self.L = wscale + 1.0

    def __call__(self, t, y):
        return torch.tanh(torch.matmul(y, self.W.T)) + torch.sin(t) * y + self.b


# ----------------------------------------------------------------------------------------------
# families with closed forms.  All act on y of shape (*batch, n); parameters are explicit tensors so that C08 can
# differentiate.  `rate` is the generator-controlled size of the Lipschitz constant.

FAMILIES = ["linear", "osc", "tdecay", "sep", "logistic"]


def family_params(family, n, seed, rate):
    """plain parameter tensors (no grad) of the family, scaled so that the Lipschitz constant is ~ rate"""
    g = torch.Generator().manual_seed(int(seed) & 0x7FFFFFFF)
    if family == "linear":
        A = torch.randn((n, n), generator=g, dtype=DT)
        A = A * (rate / float(torch.linalg.matrix_norm(A, 2)))
        return [A]
    if family == "osc":
        # rotation x' = om v, v' = -om x on a state (*batch, 2); Lipschitz constant om
        om = rate * (0.7 + 0.3 * torch.rand((), generator=g, dtype=DT))
        return [om]
    if family == "tdecay":
        a = rate * 0.5 * (torch.rand((n,), generator=g, dtype=DT) - 0.3)
        b = rate * 0.5 * (torch.rand((n,), generator=g, dtype=DT) - 0.3)
        return [a, b]
    if family == "sep":
        a = rate * (0.3 + 0.7 * torch.rand((n,), generator=g, dtype=DT))
        return [a]
    if family == "logistic":
        r = rate * (0.4 + 0.6 * torch.rand((n,), generator=g, dtype=DT))
        K = 1.0 + torch.rand((n,), generator=g, dtype=DT)
        return [r, K]
    raise ValueError(family)


def family_y0(family, shape, seed):
    g = torch.Generator().manual_seed((int(seed) ^ 0x5bd1e995) & 0x7FFFFFFF)
    if family in ("linear", "osc", "tdecay"):
        return torch.randn(tuple(shape), generator=g, dtype=DT)
    if family == "sep":
        return 0.5 + torch.rand(tuple(shape), generator=g, dtype=DT)          # in (0.5, 1.5)
    if family == "logistic":
        return 0.15 + 0.7 * torch.rand(tuple(shape), generator=g, dtype=DT)  # fraction of K, scaled by caller
    raise ValueError(family)


def family_rhs(family, t, y, params):
    if family == "linear":
        return torch.matmul(y, params[0].transpose(-2, -1))
    if family == "osc":
        om = params[0]
        return torch.stack([om * y[..., 1], -om * y[..., 0]], dim=-1)
    if family == "tdecay":
        return -(params[0] * t + params[1]) * y
    if family == "sep":
        return -params[0] * y * y
    if family == "logistic":
        return params[0] * y * (1 - y / params[1])
    raise ValueError(family)


def family_exact(family, ts, y0, params):
    """closed-form y(ts[i]) stacked along dim 0; differentiable in ts (every entry), y0 and params"""
    t0 = ts[0]
    outs = []
    for i in range(ts.shape[0]):
        tau = ts[i] - t0
        if family == "linear":
            outs.append(torch.matmul(y0, torch.linalg.matrix_exp(params[0] * tau).transpose(-2, -1)))
        elif family == "osc":
            om = params[0]
            c, s = torch.cos(om * tau), torch.sin(om * tau)
            x = y0[..., 0] * c + y0[..., 1] * s
            v = -y0[..., 0] * s + y0[..., 1] * c
            outs.append(torch.stack([x, v], dim=-1))
        elif family == "tdecay":
            a, b = params
            outs.append(y0 * torch.exp(-(0.5 * a * (ts[i] * ts[i] - t0 * t0) + b * tau)))
        elif family == "sep":
            outs.append(y0 / (1 + params[0] * y0 * tau))
        elif family == "logistic":
            r, K = params
            outs.append(K / (1 + (K / y0 - 1) * torch.exp(-r * tau)))
        else:
            raise ValueError(family)
    return torch.stack(outs, dim=0)


def family_lipschitz(family, params, tvals, ymax):
    """bound of |df/dy| along the exact solution over the grid"""
    if family == "linear":
        return float(torch.linalg.matrix_norm(params[0].detach(), 2))
    if family == "osc":
        return abs(float(params[0]))
    if family == "tdecay":
        a, b = params
        return max(float((a.detach() * t + b.detach()).abs().max()) for t in (min(tvals), max(tvals)))
    if family == "sep":
        return 2 * float(params[0].detach().max()) * ymax
    if family == "logistic":
        return float(params[0].detach().max())
    raise ValueError(family)


def ulp_of(x):
    x = abs(float(x))
    return EPS * max(x, 2.3e-308 / EPS)


# ----------------------------------------------------------------------------------------------
# polynomial chains: systems that every Runge-Kutta method of order 4 integrates exactly.
#
#   level 0:  y_0' = Q_0(s)                                   s = t - tc
#   level j:  y_j' = (C_j0 + C_j1 s) y_{j-1} + Q_j(s)
#
# In the autonomous form z = (t, y_0, y_1, ..) the elementary differential of a rooted tree is non-zero only if the tree is
# a chain of "state" nodes (one per level) each carrying time leaves; its order is the number of nodes.  With the degree
# limits of CHAIN_KINDS every tree of order >= 5 has a vanishing differential, so the local error of any method that
# satisfies the order conditions up to 4 is exactly zero - and the families together carry all 8 trees of order <= 4
# (b.1, b.c, b.c^2, b.Ac, b.c^3, b.(c*Ac), b.Ac^2, b.AAc), so a tableau violating one order condition is not exact on them.
# Euler (order 1) is exact on "const" only.
CHAIN_KINDS = {
    # name: (degrees of Q_j per level, time-dependent coupling allowed per level)
    "const": ([0], []),
    "quad3": ([3], []),                  # pure quadrature: b.c^k = 1/(k+1), k <= 3
    "quadz": ([3], []),                  # as quad3 with the coefficients of s, s^2, s^3 equal to zero *at the evaluation point*:
                                         # the forward problem is a constant (Euler-exact), the parameter quadratures are not
    "chain2": ([2, 3], [False]),         # b.Ac, b.Ac^2
    "chain2t": ([1, 3], [True]),         # b.(c*Ac)
    "chain3": ([1, 2, 3], [False, False]),   # b.AAc
}


class Poly:
    """vector polynomial in s with tensor coefficients coef[k] (shape (deg+1, n)); differentiable in everything"""

    def __init__(self, coef):
        self.coef = coef

    def __call__(self, s):
        out = self.coef[-1]
        for k in range(self.coef.shape[0] - 2, -1, -1):
            out = out * s + self.coef[k]
        return out

    def absval(self, smax):
        return sum(float(self.coef[k].detach().abs().max()) * smax ** k for k in range(self.coef.shape[0]))

    def integ(self):
        k = torch.arange(1, self.coef.shape[0] + 1, dtype=self.coef.dtype).reshape(-1, 1)
        return Poly(torch.cat([torch.zeros_like(self.coef[:1]), self.coef / k], dim=0))

    def times_s(self):
        return Poly(torch.cat([torch.zeros_like(self.coef[:1]), self.coef], dim=0))

    def matmul(self, C):
        return Poly(torch.matmul(self.coef, C.transpose(-2, -1)))

    def __add__(self, other):
        a, b = self.coef, other.coef
        if a.shape[0] < b.shape[0]:
            a, b = b, a
        if b.shape[0] < a.shape[0]:
            b = torch.cat([b, torch.zeros((a.shape[0] - b.shape[0],) + tuple(b.shape[1:]), dtype=b.dtype)], dim=0)
        return Poly(a + b)

    def plus_const(self, c):
        return Poly(torch.cat([(self.coef[0] + c).unsqueeze(0), self.coef[1:]], dim=0))


def chain_rhs(s, ys, Qs, Cs):
    """right-hand side of the chain; ys: list of level states, Qs: list of (deg+1, n_j) coefficient tensors,
    Cs: list of (C_j0, C_j1 or None) for levels j >= 1"""
    out = [Poly(Qs[0])(s) + 0 * ys[0]]
    for j in range(1, len(Qs)):
        C0, C1 = Cs[j - 1]
        M = C0 if C1 is None else C0 + C1 * s
        out.append(torch.matmul(M, ys[j - 1].unsqueeze(-1)).squeeze(-1) + Poly(Qs[j])(s))
    return out


def chain_exact(svals, y0s, Qs, Cs):
    """exact solution at the (shifted) times svals (list of 0-d tensors; svals[0] is the initial time):
    returns a list over levels of tensors (nt, n_j); also the abs-value magnitude of the solution polynomials"""
    s0 = svals[0]
    sols = []
    mag = 0.0
    smax = max(abs(float(s)) for s in svals)
    prev = None
    for j in range(len(Qs)):
        integrand = Poly(Qs[j])
        if j > 0:
            C0, C1 = Cs[j - 1]
            integrand = integrand + prev.matmul(C0)
            if C1 is not None:
                integrand = integrand + prev.matmul(C1).times_s()
        W = integrand.integ()
        U = W.plus_const(y0s[j] - W(s0))
        sols.append(torch.stack([U(s) for s in svals], dim=0))
        mag = max(mag, U.absval(smax) + W.absval(smax))
        prev = U
    return sols, mag
