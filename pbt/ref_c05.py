"""Shared helpers of the C05 / C06 checks (symeig, svd and their gradients).

* matrices with prescribed generalised spectra: M = Qm diag(mu) Qm^H (mu in [1/sqrt(kappa), sqrt(kappa)]), S = M^(1/2),
  A = S (Q diag(lam) Q^H) S^H, so that the pencil (A, M) has exactly the eigenvalues lam (up to rounding), the generator
  knows lam_min(M), ||M||, ||A|| and every gap;
* batch patterns: every batch element of A has its own Q and an affine image a*lam+b of the spectrum (realised as
  S Q (a lam) Q^H S^H + b M), every batch element of M is a scalar multiple mu_j*M0 of one matrix, so the pencil
  (A_i, M_j) has eigenvalues (a_i lam + b_i)/mu_j for *every* broadcast pair (degeneracies survive, gaps scale by a known factor);
* operator kinds realising a given dense matrix from one or two leaf tensors;
* dense references: scipy.linalg.eigh per batch element and the closed-form first-order perturbation-theory gradient
  (valid at exact degeneracy for basis-independent losses).
All randomness comes from a torch.Generator seeded by the case.
"""
from __future__ import annotations

import math

import numpy as np
import scipy.linalg
import torch

from pbt import gen

DT = {"f64": torch.float64, "c128": torch.complex128}
EPS = 2.220446049250313e-16


def herm(X):
    return 0.5 * (X + X.transpose(-2, -1).conj())


def ct(X):
    return X.transpose(-2, -1).conj()


def bcast_shape(a, b):
    return list(torch.broadcast_shapes(tuple(a), tuple(b)))


def rand_unitary(g, batch, n, dtype):
    Q, R = torch.linalg.qr(gen.randn(g, (*batch, n, n), dtype))
    return Q


def pick(g, values, shape):
    idx = torch.randint(0, len(values), tuple(shape), generator=g)
    return torch.tensor(values, dtype=torch.float64)[idx]


# ------------------------------------------------------------------------------------------ pencils

class Pencil:
    """dense A (*BA,n,n), M (*BM,n,n) or None, and what the generator knows about them"""
    pass


def build_pencil(g, lam, dtype, batchA, batchM, mkappa, affine=True, structure="generic",
                 avals=(1.0, 0.5, 2.0), bvals=(0.0, -1.0, 1.0), mvals=(1.0, 0.5, 2.0)):
    """lam: ascending list of floats (exact repeats allowed).  batchM None -> no M."""
    n = len(lam)
    lam_t = torch.tensor(lam, dtype=torch.float64)
    p = Pencil()
    p.n = n
    p.dtype = dtype
    if batchM is not None:
        rk = math.sqrt(float(mkappa))
        mu = torch.exp((torch.rand((n,), generator=g, dtype=torch.float64) * 2 - 1) * math.log(rk))
        mu[0] = 1.0 / rk
        mu[-1] = rk
        Qm = rand_unitary(g, (), n, dtype)
        if structure == "diag":
            Qm = torch.eye(n, dtype=dtype)
        M0 = herm((Qm * mu.to(dtype)) @ ct(Qm))
        S = herm((Qm * mu.sqrt().to(dtype)) @ ct(Qm))
        scal = pick(g, list(mvals), batchM) if affine else torch.ones(tuple(batchM), dtype=torch.float64)
        M = scal.to(dtype)[..., None, None] * M0
        p.M = M
        p.mscal = scal
        p.m_lmin = float(scal.min()) / rk
        p.m_norm = float(scal.max()) * rk
        p.m_kappa = float(mkappa)
    else:
        S = None
        M0 = None
        p.M = None
        p.mscal = torch.ones((), dtype=torch.float64)
        p.m_lmin, p.m_norm, p.m_kappa = 1.0, 1.0, 1.0
    if affine:
        a = pick(g, list(avals), batchA)
        b = pick(g, list(bvals), batchA)
    else:
        a = torch.ones(tuple(batchA), dtype=torch.float64)
        b = torch.zeros(tuple(batchA), dtype=torch.float64)
    Q = rand_unitary(g, batchA, n, dtype)
    if structure == "diag":      # exactly diagonal A and M: bit-exact repeated eigenvalues, exactly singular shifted matrices
        Q = torch.eye(n, dtype=dtype).expand(*batchA, n, n)
    lam_b = a[..., None] * lam_t        # (*BA, n); the shift b is added as b*M0 (or b*I)
    C = herm((Q * lam_b.to(dtype)[..., None, :]) @ ct(Q))
    if S is not None:
        A = herm(S @ C @ ct(S)) + b.to(dtype)[..., None, None] * M0
    else:
        A = C + b.to(dtype)[..., None, None] * torch.eye(n, dtype=dtype)
    p.A = herm(A)
    p.a, p.b = a, b
    # eigenvalues of the pencil (A_i, M_j): (a_i lam + b_i) / mu_j, broadcast
    p.batch = bcast_shape(batchA, batchM if batchM is not None else [])
    lam_full = (a[..., None] * lam_t + b[..., None])
    if batchM is not None:
        lam_full = lam_full / p.mscal[..., None]
    p.lam = lam_full.expand(*p.batch, n)           # prescribed spectrum per broadcast element, ascending
    p.gapscale = float(a.min()) / float(p.mscal.max())   # gaps of `lam` are multiplied by at least this
    return p


def ref_eigh(A, M, batch):
    """scipy.linalg.eigh per broadcast batch element: values (*batch, n) ascending, vectors (*batch, n, n)"""
    n = A.shape[-1]
    Ab = A.expand(*batch, n, n).reshape(-1, n, n).numpy()
    Mb = M.expand(*batch, n, n).reshape(-1, n, n).numpy() if M is not None else None
    vals, vecs = [], []
    for k in range(Ab.shape[0]):
        w, v = scipy.linalg.eigh(Ab[k], Mb[k] if Mb is not None else None)
        vals.append(w)
        vecs.append(v)
    vals = torch.tensor(np.array(vals)).reshape(*batch, n)
    vecs = torch.tensor(np.array(vecs)).reshape(*batch, n, n).to(A.dtype)
    return vals, vecs


# ------------------------------------------------------------------------------------------ operator kinds

HERM_KINDS = ["dense", "mv", "mvmm", "full", "add_du", "sub_ud", "scaled", "dense_scaled"]
GEN_KINDS = ["dense", "mv", "mv_rmv", "all", "add_du", "scaled", "adj", "matmul"]


def _user_class(methods, hermitize):
    """fresh LinearOperator subclass (type()) implementing exactly `methods` on the parameter tensor self.P"""
    import xitorch

    def mat(self):
        return herm(self.P) if hermitize else self.P

    def __init__(self, P):
        xitorch.LinearOperator.__init__(self, shape=P.shape, is_hermitian=hermitize, dtype=P.dtype, device=P.device)
        self.P = P
        self.calls = {}

    def tick(self, name):
        self.calls[name] = self.calls.get(name, 0) + 1

    def _mv(self, x):
        tick(self, "mv")
        return torch.matmul(mat(self), x.unsqueeze(-1)).squeeze(-1)

    def _rmv(self, x):
        tick(self, "rmv")
        return torch.matmul(ct(mat(self)), x.unsqueeze(-1)).squeeze(-1)

    def _mm(self, x):
        tick(self, "mm")
        return torch.matmul(mat(self), x)

    def _rmm(self, x):
        tick(self, "rmm")
        return torch.matmul(ct(mat(self)), x)

    def _fullmatrix(self):
        tick(self, "fullmatrix")
        return mat(self)

    def _getparamnames(self, prefix=""):
        return [prefix + "P"]
    impl = {"_mv": _mv, "_rmv": _rmv, "_mm": _mm, "_rmm": _rmm, "_fullmatrix": _fullmatrix}
    body = {m: impl[m] for m in methods}
    body["__init__"] = __init__
    body["_getparamnames"] = _getparamnames
    return type("UserOp_" + "_".join(m.strip("_") for m in methods), (xitorch.LinearOperator,), body)


_METHODS = {"mv": ["_mv"], "mvmm": ["_mv", "_mm"], "full": ["_mv", "_mm", "_fullmatrix"],
            "mv_rmv": ["_mv", "_rmv"], "all": ["_mv", "_rmv", "_mm", "_rmm", "_fullmatrix"]}


def split_leaves(kind, T0, g):
    """leaf values (plain tensors) such that dense_of(kind, leaves) == T0 (T0 Hermitian for the Hermitian kinds)"""
    if kind in ("add_du",):
        R = gen.randn(g, T0.shape, T0.dtype) * 0.3
        return [0.25 * T0 + R, 0.75 * T0 - R]
    if kind == "sub_ud":
        R = gen.randn(g, T0.shape, T0.dtype) * 0.3
        return [1.5 * T0 + R, 0.5 * T0 + R]
    if kind in ("scaled", "dense_scaled"):
        return [T0 / 2.0]
    if kind == "adj":
        return [ct(T0).contiguous()]
    if kind == "matmul":
        W = rand_unitary(g, (), T0.shape[-1], T0.dtype)
        return [T0 @ ct(W), W]
    return [T0.clone()]


def dense_of(kind, leaves, hermitian):
    h = herm if hermitian else (lambda X: X)
    if kind == "add_du":
        return h(leaves[0]) + h(leaves[1])
    if kind == "sub_ud":
        return h(leaves[0]) - h(leaves[1])
    if kind in ("scaled", "dense_scaled"):
        return 2.0 * h(leaves[0])
    if kind == "adj":
        return ct(leaves[0])
    if kind == "matmul":
        return leaves[0] @ leaves[1]
    return h(leaves[0])


def leaves_scale(kind, leaves):
    """norm scale of the data an operator is built from: the operator realises the target matrix only up to eps * this
    (e.g. add_du stores 0.25 T + R and 0.75 T - R with a random R of order one)"""
    norms = [float(torch.linalg.matrix_norm(l, 2).max()) for l in leaves]
    if kind == "matmul":
        return norms[0] * norms[1]
    if kind in ("scaled", "dense_scaled"):
        return 2.0 * norms[0]
    return sum(norms)


def make_operator(kind, leaves, hermitian):
    """LinearOperator of the given kind realising dense_of(kind, leaves, hermitian); returns (op, [user objects])"""
    import xitorch
    LO = xitorch.LinearOperator
    h = herm if hermitian else (lambda X: X)

    def dense(P):
        return LO.m(h(P), is_hermitian=True if hermitian else False)

    def user(P, ms):
        return _user_class(_METHODS[ms], hermitian)(P)
    if kind == "dense":
        return dense(leaves[0])
    if kind in _METHODS:
        return user(leaves[0], kind)
    if kind == "add_du":
        return dense(leaves[0]) + user(leaves[1], "mv")
    if kind == "sub_ud":
        return user(leaves[0], "full" if hermitian else "all") - dense(leaves[1])
    if kind == "scaled":
        return user(leaves[0], "mv") * 2.0
    if kind == "dense_scaled":
        return 2.0 * dense(leaves[0])
    if kind == "adj":
        return user(leaves[0], "mv_rmv").H
    if kind == "matmul":
        return user(leaves[0], "mv_rmv").matmul(dense(leaves[1]))
    raise ValueError(kind)


# ------------------------------------------------------------------------------------------ closed-form gradients

def groups_of(gid):
    """gid: list of group ids of the selected eigenvalues (equal id <=> same degenerate group) -> 0/1 matrix"""
    t = torch.tensor(gid)
    return (t[:, None] == t[None, :])


def eig_pullback(lam_all, X_all, sel, same, G_lam, G_X):
    """closed-form first-order pull-back for the Hermitian-definite pencil (no batch dims).

    lam_all (n,), X_all (n,n): all eigenpairs, A X = M X diag(lam), X^H M X = I (M = I allowed).
    sel: LongTensor of the selected column indices (k,);  same: (k,k) bool, True inside a degenerate group.
    G_lam (k,) real, G_X (n,k): cotangents of the loss w.r.t. the selected values / vectors (torch convention
    dl = Re <G, dX>).  The loss must not depend on the basis chosen inside a degenerate group.
    Returns (Abar, Mbar), Hermitian, such that dl = Re tr(Abar^H dA) + Re tr(Mbar^H dM) for Hermitian dA, dM:

      dlam_i = x_i^H (dA - lam_i dM) x_i
      dx_i   = sum_{j not in group(i)} x_j x_j^H (dA - lam_i dM) x_i / (lam_i - lam_j)  -  1/2 sum_{j in group(i)} x_j x_j^H dM x_i
    """
    n = lam_all.shape[0]
    k = sel.shape[0]
    dtype = X_all.dtype
    XS = X_all[:, sel]
    lamS = lam_all[sel]
    C = ct(X_all) @ G_X                                    # (n,k):  x_j^H G_i
    diff = lamS[None, :] - lam_all[:, None]                # (n,k):  lam_i - lam_j
    ingroup = torch.zeros((n, k), dtype=torch.bool)
    ingroup[sel, :] = same
    F = torch.where(ingroup, torch.zeros_like(diff), 1.0 / torch.where(ingroup, torch.ones_like(diff), diff))
    FC = F.to(dtype) * C
    Abar = (XS * G_lam.to(dtype)[None, :]) @ ct(XS) + X_all @ FC @ ct(XS)
    Mbar = -(XS * (G_lam * lamS).to(dtype)[None, :]) @ ct(XS) - X_all @ (FC * lamS.to(dtype)[None, :]) @ ct(XS) \
        - 0.5 * XS @ (same.to(dtype) * (ct(XS) @ G_X)) @ ct(XS)
    return herm(Abar), herm(Mbar)
