"""Problem families, reference solutions and warning classification shared by the C03 / C04 checks.

All families act row-wise on an unknown of `R` rows and `n` columns (layout "row": y has shape (*batch, n);
layout "col": y has shape (n, k) and the rows are the columns of y, as in the doc example `A @ y`).
For a row y (length n), with z = A y + b:

  F1  "tanh"   g(y) = tanh(z)                     f(y) = y - g(y)          ||A||_2 = L < 1        sigma = 1 - L
  F2  "mono"   f(y) = D y + eps tanh(z)           g(y) = y - f(y)          D SPD, ||A||_2 = 1     sigma = lmin(D) - eps
  F3  "csin"   g(y) = c sin(z)  (complex)         f(y) = y - g(y)          contraction on ||y||<=1, see below
  F4  "quad"   phi(y) = 1/2 y Q y - b y + eps sum_i log cosh((A y)_i)      Q SPD, ||A||_2 = 1     sigma = lmin(Q)

F1: ||g(u)-g(v)|| <= L||u-v||, hence ||f(u)-f(v)|| >= (1-L)||u-v|| everywhere.
F2: the symmetric part of the Jacobian D + eps diag(sech^2 z) A is >= lmin(D) - eps = sigma > 0, so f is strongly
    monotone: ||f(u)-f(v)|| >= sigma ||u-v|| everywhere; y - f(y) is a contraction iff max|1-d_i| + eps < 1.
F3: for ||y||_2 <= 1 and ||b||_2 <= 1/2: |z_i| <= 3/2, |sin z_i|, |cos z_i| <= cosh(3/2) =: K.  With c = Lc/(K sqrt(n)), Lc<=1,
    g maps the unit ball into itself and is Lipschitz there with constant L = Lc/sqrt(n): exactly one fixed point in the ball
    (other roots may exist far outside, where sin grows exponentially; a point returned outside the ball is only held to the
    residual test).
F4: Hessian Q + eps A^T diag(sech^2) A lies in [lmin(Q), lmax(Q)+eps]: strongly convex, unique minimiser,
    ||grad phi(y)|| >= sigma ||y - y*||, phi(y) - phi* <= ||grad phi(y)||^2 / (2 sigma).

Two optional case keys (used by C03's task "anyproblem" only; absent => exactly the families above) leave the contractive /
monotone domain, for the part of the oracle that is valid for ANY problem (silent => the returned tensor meets the test):

  "relax": rho    the equilibrium form becomes the relaxation map g(y) = y - K f(y), K = rho / lmax, f the family's root form
                  (lmax >= |df/dy|).  Same unique solution y*, |g(u)-u - (g(v)-v)| >= K sigma |u-v|, but dg/dy = I - K df/dy has
                  eigenvalues down to 1 - rho: for rho > 2 the map is not a contraction (the plain iteration diverges) although
                  the problem is perfectly solvable.  `Problem.K` holds K (None otherwise); rootfinder / minimize forms unchanged.
  "nonmono": True (families mono / quad) the tanh / log cosh term enters with the NEGATIVE coefficient eps = -L lmin, L > 1 allowed:
                  f(y) = D y - eps' tanh(A y + b) is not monotone, phi(y) = 1/2 y Q y - b y - eps' sum log cosh(A y) is coercive but
                  not convex (several stationary points).  Roots exist (bounded perturbation of an invertible linear map) but are
                  not unique: `Problem.unique` is False, `sigma` is None, no reference solution.

The reference solution is computed independently of xitorch: (damped) Newton with the closed-form Jacobians above, batched
over rows with torch.linalg.solve, and it certifies itself (residual <= 1e-12 (1+|b|)), otherwise HarnessError.
"""
from __future__ import annotations

import math
import warnings

import torch

from pbt.harness import HarnessError

K_CSIN = math.cosh(1.5)
DTYPES = {"f32": torch.float32, "f64": torch.float64, "c128": torch.complex128}


# ------------------------------------------------------------------------------------------ warnings

def is_convergence_warning(w) -> bool:
    """ConvergenceWarning, or any warning whose text says the method did not converge (gd/adam: plain UserWarning)"""
    if type(w.message).__name__ == "ConvergenceWarning" or getattr(w.category, "__name__", "") == "ConvergenceWarning":
        return True
    txt = str(w.message).lower()
    return ("not converge" in txt) or ("n't converge" in txt) or ("no convergence" in txt) or ("failed to converge" in txt)


class Recorder:
    """records warnings around a call: `with Recorder() as r: ...; r.warned`"""
    def __enter__(self):
        self._cm = warnings.catch_warnings(record=True)
        self.list = self._cm.__enter__()
        warnings.simplefilter("always")
        return self

    def __exit__(self, *exc):
        self._cm.__exit__(*exc)
        return False

    @property
    def warned(self):
        return any(is_convergence_warning(w) for w in self.list)

    @property
    def texts(self):
        return [str(w.message)[:120] for w in self.list]


# ------------------------------------------------------------------------------------------ layout helpers

def to_rows(y, layout, n):
    if layout == "col":
        return y.transpose(0, 1)
    return y.reshape(-1, n)


def from_rows(Y, layout, shape):
    if layout == "col":
        return Y.transpose(0, 1)
    return Y.reshape(shape)


def logcosh(x):
    ax = x.abs()
    return ax + torch.nn.functional.softplus(-2.0 * ax) - math.log(2.0)


# ------------------------------------------------------------------------------------------ row-wise maps (Y: (R, n))

def f1_g(Y, A, b):
    return torch.tanh(Y @ A.transpose(0, 1) + b)


def f2_f(Y, A, b, D, eps):
    return Y @ D.transpose(0, 1) + eps * torch.tanh(Y @ A.transpose(0, 1) + b)


def f3_g(Y, A, b, c):
    return c * torch.sin(Y @ A.transpose(0, 1) + b)


def f4_phi(Y, A, b, Q, eps):
    quad = 0.5 * ((Y @ Q) * Y).sum() - (Y * b).sum()
    return quad + eps * logcosh(Y @ A.transpose(0, 1)).sum()


def f4_grad(Y, A, b, Q, eps):
    return Y @ Q - b + eps * torch.tanh(Y @ A.transpose(0, 1)) @ A


class Problem:
    """one generated problem; `P` holds the tensors, `const` the generator-known constants"""

    def __init__(self, fam, n, layout, shape, dtype, P, const):
        self.fam, self.n, self.layout, self.shape, self.dtype = fam, n, layout, tuple(shape), dtype
        self.P, self.const = P, const
        self.sigma = const["sigma"]          # ||residual(u) - residual(v)|| >= sigma ||u - v|| (None: not monotone)
        self.L = const.get("L")              # Lipschitz constant of y -> y - f(y) (None when not a contraction)
        self.K = const.get("K")              # relaxation factor: the equilibrium form is y - K f(y) (None: the family's own map)
        self.unique = const.get("unique", True)

    # ---- row-wise residual f (root form), fixed-point map g and objective
    def f_rows(self, Y):
        P = self.P
        if self.fam == "tanh":
            return Y - f1_g(Y, P["A"], P["b"])
        if self.fam == "mono":
            return f2_f(Y, P["A"], P["b"], P["D"], P["eps"])
        if self.fam == "csin":
            return Y - f3_g(Y, P["A"], P["b"], P["c"])
        if self.fam == "quad":
            return f4_grad(Y, P["A"], P["b"], P["Q"], P["eps"])
        raise ValueError(self.fam)

    def g_rows(self, Y):
        P = self.P
        if self.fam == "tanh":
            return f1_g(Y, P["A"], P["b"])
        if self.fam == "csin":
            return f3_g(Y, P["A"], P["b"], P["c"])
        return Y - self.f_rows(Y)

    def jac_rows(self, Y):
        """closed-form Jacobian of f_rows per row: (R, n, n), J[r, i, j] = d f_i / d y_j"""
        P = self.P
        n = self.n
        eye = torch.eye(n, dtype=self.dtype)
        A = P["A"]
        if self.fam == "tanh":
            t = torch.tanh(Y @ A.transpose(0, 1) + P["b"])
            return eye - (1 - t * t).unsqueeze(-1) * A
        if self.fam == "mono":
            t = torch.tanh(Y @ A.transpose(0, 1) + P["b"])
            return P["D"] + P["eps"] * (1 - t * t).unsqueeze(-1) * A
        if self.fam == "csin":
            cz = torch.cos(Y @ A.transpose(0, 1) + P["b"])
            return eye - P["c"] * cz.unsqueeze(-1) * A
        if self.fam == "quad":
            t = torch.tanh(Y @ A.transpose(0, 1))
            return P["Q"] + P["eps"] * torch.einsum("ki,rk,kj->rij", A, (1 - t * t), A)
        raise ValueError(self.fam)

    # ---- the callables handed to xitorch (they take the tensors as explicit params)
    def params(self):
        P = self.P
        if self.fam == "tanh":
            return (P["A"], P["b"])
        if self.fam == "mono":
            return (P["A"], P["b"], P["D"], P["eps"])
        if self.fam == "csin":
            return (P["A"], P["b"], P["c"])
        return (P["A"], P["b"], P["Q"], P["eps"])

    def make_fcn(self, api, counter=None):
        """user function for `api` in rootfinder / equilibrium / minimize"""
        fam, layout, n, K = self.fam, self.layout, self.n, self.K

        def rootfcn(y, *p):
            if counter is not None:
                counter.tick()
            Y = to_rows(y, layout, n)
            if fam == "tanh":
                out = Y - f1_g(Y, *p)
            elif fam == "mono":
                out = f2_f(Y, *p)
            elif fam == "csin":
                out = Y - f3_g(Y, *p)
            else:
                out = f4_grad(Y, *p)
            return from_rows(out, layout, y.shape)

        def equilfcn(y, *p):
            if counter is not None:
                counter.tick()
            Y = to_rows(y, layout, n)
            if K is not None:        # relaxation map y - K f(y)
                if fam == "tanh":
                    out = Y - K * (Y - f1_g(Y, *p))
                elif fam == "csin":
                    out = Y - K * (Y - f3_g(Y, *p))
                elif fam == "mono":
                    out = Y - K * f2_f(Y, *p)
                else:
                    out = Y - K * f4_grad(Y, *p)
            elif fam == "tanh":
                out = f1_g(Y, *p)
            elif fam == "csin":
                out = f3_g(Y, *p)
            elif fam == "mono":
                out = Y - f2_f(Y, *p)
            else:
                out = Y - f4_grad(Y, *p)
            return from_rows(out, layout, y.shape)

        def minfcn(y, *p):
            if counter is not None:
                counter.tick()
            return f4_phi(to_rows(y, layout, n), *p)

        return {"rootfinder": rootfcn, "equilibrium": equilfcn, "minimize": minfcn}[api]

    # ---- oracle-side evaluations on a tensor of the unknown's shape
    def residual_norm(self, y, api):
        """the quantity the stopping test of `api` bounds, evaluated exactly the way the solver sees it"""
        fcn = self.make_fcn(api)
        p = self.params()
        if api == "rootfinder":
            return float(fcn(y, *p).norm())
        if api == "equilibrium":
            return float((fcn(y, *p) - y).norm())
        with torch.enable_grad():
            y1 = y.detach().clone().requires_grad_()
            z = fcn(y1, *p)
            gy, = torch.autograd.grad(z, (y1,))
        return float(gy.norm())

    def phi(self, y):
        P = self.P
        return float(f4_phi(to_rows(y.detach(), self.layout, self.n), P["A"], P["b"], P["Q"], P["eps"]))

    def solve_reference(self):
        """y* of the unknown's shape (float64 / complex128 arithmetic)"""
        if not self.unique:
            raise HarnessError("no reference solution for a family without a unique solution")
        R = 1
        for s in self.shape:
            R *= s
        R //= self.n
        wide = torch.complex128 if self.dtype.is_complex else torch.float64
        saved = self.P
        self.P = {k: (v.to(wide) if isinstance(v, torch.Tensor) else v) for k, v in saved.items()}
        dt_saved, self.dtype = self.dtype, wide
        try:
            Y = torch.zeros((R, self.n), dtype=wide)
            if self.L is not None and self.L < 1:
                its = min(400, int(math.log(1e-8) / math.log(max(self.L, 1e-3))) + 2)
                for _ in range(its):
                    Y = self.g_rows(Y)
            for _ in range(60):
                F = self.f_rows(Y)
                fn = F.norm(dim=-1)
                if float(fn.max()) <= 1e-15 * (1 + float(self.P["b"].abs().max())):
                    break
                dY = torch.linalg.solve(self.jac_rows(Y), -F.unsqueeze(-1)).squeeze(-1)
                s = torch.ones((R, 1), dtype=torch.float64)
                for _ in range(40):
                    fn_new = self.f_rows(Y + s * dY).norm(dim=-1)
                    bad = fn_new > fn * (1 - 1e-4 * s.squeeze(-1))
                    if not bool(bad.any()):
                        break
                    s = torch.where(bad.unsqueeze(-1), s * 0.5, s)
                Y = Y + s * dY
            res = float(self.f_rows(Y).norm())
            scale = 1 + float(self.P["b"].abs().max())
            if not res <= 1e-12 * scale * math.sqrt(R):
                raise HarnessError("reference Newton iteration did not reach 1e-12: residual %.3e (family %s)" % (res, self.fam))
            out = from_rows(Y, self.layout, self.shape)
        finally:
            self.P, self.dtype = saved, dt_saved
        return out.contiguous()


# ------------------------------------------------------------------------------------------ construction from a case

def spd(g, n, lo, hi, dtype=torch.float64):
    """symmetric matrix with eigenvalues spread over [lo, hi] (both attained when n >= 2)"""
    M = torch.randn((n, n), generator=g, dtype=torch.float64)
    Qm, _ = torch.linalg.qr(M)
    if n == 1:
        d = torch.tensor([0.5 * (lo + hi)], dtype=torch.float64)
    else:
        d = lo + (hi - lo) * torch.rand((n,), generator=g, dtype=torch.float64)
        d[0], d[-1] = lo, hi
    return ((Qm * d) @ Qm.transpose(0, 1)).to(dtype), float(d.min()), float(d.max())


def unit_spectral(g, n, dtype):
    if dtype.is_complex:
        A = torch.complex(torch.randn((n, n), generator=g, dtype=torch.float64),
                          torch.randn((n, n), generator=g, dtype=torch.float64))
    else:
        A = torch.randn((n, n), generator=g, dtype=torch.float64)
    return A / torch.linalg.matrix_norm(A, 2)


def shape_of(n, layout, batch):
    if layout == "col":
        return (n, batch[0])
    return tuple(batch) + (n,)


def build_problem(case, g) -> Problem:
    """case keys: fam, n, layout, batch, dtype, L (contraction / coupling strength in (0..1)), spread, bscale"""
    fam, n, layout = case["fam"], case["n"], case["layout"]
    dtype = DTYPES[case["dtype"]]
    shape = shape_of(n, layout, case["batch"])
    strength = float(case["L"])
    bscale = float(case["bscale"])
    wide = torch.complex128 if dtype.is_complex else torch.float64
    A = unit_spectral(g, n, wide)
    if wide.is_complex:
        b = torch.complex(torch.randn((n,), generator=g, dtype=torch.float64), torch.randn((n,), generator=g, dtype=torch.float64))
    else:
        b = torch.randn((n,), generator=g, dtype=torch.float64)
    if fam == "tanh":
        P = {"A": (A * strength).to(dtype), "b": (b * bscale).to(dtype)}
        const = {"sigma": 1 - strength, "L": strength, "lmax": 1 + strength}
    elif fam == "mono":
        lo, hi = case["spread"]
        D, dmin, dmax = spd(g, n, lo, hi, dtype)
        eps = strength * dmin
        P = {"A": A.to(dtype), "b": (b * bscale).to(dtype), "D": D, "eps": eps}
        Lc = max(abs(1 - dmin), abs(1 - dmax)) + eps
        const = {"sigma": dmin - eps, "L": Lc if Lc < 1 else None, "lmax": dmax + eps}
    elif fam == "csin":
        bn = b / b.norm() * min(0.5, bscale * 0.25) if bscale > 0 else b * 0
        c = strength / (K_CSIN * math.sqrt(n))
        P = {"A": A.to(dtype), "b": bn.to(dtype), "c": c}
        const = {"sigma": 1 - strength / math.sqrt(n), "L": strength / math.sqrt(n), "lmax": 2.0, "ball": 1.0}
    elif fam == "quad":
        lo, hi = case["spread"]
        Q, qmin, qmax = spd(g, n, lo, hi, dtype)
        eps = strength * qmin
        P = {"A": A.to(dtype), "b": (b * bscale).to(dtype), "Q": Q, "eps": eps}
        Lc = max(abs(1 - qmin), abs(1 - qmax + 0.0), abs(1 - qmax - eps))
        const = {"sigma": qmin, "L": Lc if Lc < 1 else None, "lmax": qmax + eps}
    else:
        raise ValueError(fam)
    if case.get("nonmono"):
        if fam not in ("mono", "quad"):
            raise ValueError("nonmono: families mono / quad only")
        P["eps"] = -P["eps"]
        const = {"sigma": None, "L": None, "lmax": const["lmax"], "unique": False}
    if case.get("relax") is not None:
        const = dict(const, K=float(case["relax"]) / const["lmax"], L=None)
    return Problem(fam, n, layout, shape, dtype, P, const)
