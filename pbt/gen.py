"""Shared generators and builders: function kinds realising one mathematical function of leaf tensors.

A mathematical function is `core(xs, eff, scale)`: xs = tuple of the functional's own arguments, eff = list of
"effective" parameter tensors, scale = a non-tensor number.  The effective tensors are derived from *leaves*
by a recipe (`derive`): identity, square, product of two leaves, or an alias of another effective tensor.
`build_function` realises `core` in one of the function kinds accepted by xitorch:

  pure        plain function, every effective tensor passed explicitly (the anchor kind)
  nn          torch.nn.Module.forward, leaves are Parameters, derivations happen inside forward
  nn_nested   Parameters held by nested sub-modules (+ a buffer), called through a bound method
  em          xitorch.EditableModule with (derived, non-leaf) tensors as attributes
  em_cont     EditableModule holding the tensors in a list and a dict (names like "lst[1]", "dct['k']")
  em_nn       EditableModule whose tensors live in an nn.Module attribute ("mod.p0")
  sib1        make_sibling(obj.method) around an `em` object
  sib2        make_sibling(obj1.method, obj2.method): the tensors are split over two objects (em + nn); with spec["sib3"] a plain
              function without object tensors sits between the two members

For every kind a subset of the effective tensors may instead be passed explicitly (`explicit[j]`), an unused
tensor may be added (explicitly or object-held) and a non-tensor parameter may be interleaved.
All randomness comes from the case dict; nothing here uses a global RNG.
"""
from __future__ import annotations

from typing import Callable, List, Sequence

import torch
from hypothesis import strategies as st

KINDS = ["pure", "nn", "nn_nested", "em", "em_cont", "em_nn", "sib1", "sib2"]
OBJ_KINDS = [k for k in KINDS if k != "pure"]


class InjectedFault(Exception):
    """raised by a user callback at the k-th evaluation (fault injection)"""


class Counter:
    def __init__(self, fail_at=None):
        self.n = 0
        self.fail_at = fail_at
        self.log = []

    def tick(self, *info):
        self.n += 1
        if self.fail_at is not None and self.n == self.fail_at:
            raise InjectedFault("injected at evaluation %d" % self.n)


def derive_one(rec, leaves, effs):
    op = rec[0]
    if op == "id":
        return leaves[rec[1]]
    if op == "sq":
        return leaves[rec[1]] * leaves[rec[1]]
    if op == "mul":
        return leaves[rec[1]] * leaves[rec[2]]
    if op == "lin":
        return 2.0 * leaves[rec[1]] + 0.5
    if op == "alias":
        return effs[rec[1]]
    raise ValueError(rec)


def derive_all(derive, leaves):
    effs = []
    for rec in derive:
        effs.append(derive_one(rec, leaves, effs))
    return effs


def make_leaves(values: Sequence[torch.Tensor], req: Sequence[bool], kind: str) -> List[torch.Tensor]:
    """leaf tensors; nn kinds need Parameters (a Parameter is also a valid explicit argument)"""
    out = []
    for v, r in zip(values, req):
        if kind in ("nn", "nn_nested", "em_nn", "sib2"):
            out.append(torch.nn.Parameter(v.clone(), requires_grad=bool(r)))
        else:
            out.append(v.clone().requires_grad_(bool(r)))
    return out


def build_function(core: Callable, leaves: List[torch.Tensor], spec: dict, counter: Counter = None):
    """returns (fcn, params, info): calling fcn(*xs, *params) evaluates core(xs, eff, scale).

    spec: {"kind", "derive": [...], "explicit": [bool per eff], "unused": None|"explicit"|"object",
           "nontensor": bool, "scale": float}
    info: {"obj": object or None (for state inspection), "objs": [...], "unused": tensor or None}
    """
    import xitorch
    kind = spec["kind"]
    derive = spec["derive"]
    neff = len(derive)
    explicit = list(spec.get("explicit") or [kind == "pure"] * neff)
    if kind == "pure":
        explicit = [True] * neff
    scale = float(spec.get("scale", 1.0))
    nontensor = bool(spec.get("nontensor", False))
    unused_mode = spec.get("unused")
    counter = counter or Counter()
    unused_t = None
    if unused_mode:
        base = torch.full((2,), 0.37, dtype=leaves[0].dtype if leaves else torch.float64)
        if unused_mode == "object" and kind in ("nn", "nn_nested", "em_nn", "sib2"):
            unused_t = torch.nn.Parameter(base)
        else:
            unused_t = base.requires_grad_()

    # effective tensors computed outside (for explicit passing and for em attributes)
    eff_out = derive_all(derive, leaves)
    # alias recipes must yield the same object
    obj_idx = [j for j in range(neff) if not explicit[j]]
    exp_idx = [j for j in range(neff) if explicit[j]]

    params: list = [eff_out[j] for j in exp_idx]
    if unused_mode == "explicit":
        params.append(unused_t)
    if nontensor:
        params.append(scale)

    def assemble(held: dict, args):
        """split the call arguments into xs and the explicit tail; merge with object-held tensors"""
        ntail = len(params)
        xs = args[:len(args) - ntail] if ntail else args
        tail = args[len(args) - ntail:] if ntail else ()
        eff = [None] * neff
        for k, j in enumerate(exp_idx):
            eff[j] = tail[k]
        for j in obj_idx:
            eff[j] = held[j]
        sc = tail[-1] if nontensor else scale
        return xs, eff, sc

    info = {"obj": None, "objs": [], "unused": unused_t, "counter": counter}

    if kind == "pure":
        def fcn(*args):
            counter.tick()
            xs, eff, sc = assemble({}, args)
            return core(xs, eff, sc)
        return fcn, tuple(params), info

    # ---------------------------------------------------------------- nn kinds: leaves are Parameters
    needed_leaves = sorted({i for j in obj_idx for i in _leaf_deps(derive, j)})

    def nn_held(getleaf):
        leafview = {i: getleaf(i) for i in needed_leaves}
        effs = []
        for rec in derive:
            if rec[0] == "alias":
                effs.append(effs[rec[1]])
            elif all(i in leafview for i in rec[1:]):
                effs.append(derive_one(rec, leafview, effs))
            else:
                effs.append(None)
        return {j: effs[j] for j in obj_idx}

    if kind == "nn":
        class NNFun(torch.nn.Module):
            def __init__(self):
                super().__init__()
                for i in needed_leaves:
                    setattr(self, "p%d" % i, leaves[i])
                if unused_mode == "object":
                    self.unused = unused_t

            def forward(self, *args):
                counter.tick()
                xs, eff, sc = assemble(nn_held(lambda i: getattr(self, "p%d" % i)), args)
                return core(xs, eff, sc)
        m = NNFun()
        info["obj"] = m
        info["objs"] = [m]
        return m, tuple(params), info

    if kind == "nn_nested":
        class Inner(torch.nn.Module):
            def __init__(self, idxs):
                super().__init__()
                for i in idxs:
                    setattr(self, "w%d" % i, leaves[i])

        class Outer(torch.nn.Module):
            def __init__(self):
                super().__init__()
                self.first = Inner(needed_leaves[::2])
                self.second = torch.nn.ModuleList([Inner(needed_leaves[1::2])])
                self.register_buffer("one", torch.ones((), dtype=leaves[0].dtype if leaves else torch.float64))
                if unused_mode == "object":
                    self.second[0].unused = unused_t

            def _leaf(self, i):
                pos = needed_leaves.index(i)
                holder = self.first if pos % 2 == 0 else self.second[0]
                return getattr(holder, "w%d" % i)

            def evaluate(self, *args):
                counter.tick()
                xs, eff, sc = assemble(nn_held(self._leaf), args)
                out = core(xs, eff, sc)
                if isinstance(out, torch.Tensor):
                    return out * self.one
                return out
        m = Outer()
        info["obj"] = m
        info["objs"] = [m]
        return m.evaluate, tuple(params), info

    # ---------------------------------------------------------------- EditableModule kinds
    def em_class(names_of, store):
        class EMFun(xitorch.EditableModule):
            def __init__(self):
                store(self)

            def evaluate(self, *args):
                counter.tick()
                held = {j: xitorch._utils.attr.get_attr(self, names_of[j]) for j in obj_idx}
                xs, eff, sc = assemble(held, args)
                return core(xs, eff, sc)

            def getparamnames(self, methodname, prefix=""):
                if methodname != "evaluate":
                    raise KeyError(methodname)
                names = [prefix + names_of[j] for j in obj_idx]
                if unused_mode == "object":
                    names.append(prefix + "unused")
                return names
        return EMFun

    if kind in ("em", "sib1"):
        names_of = {j: "t%d" % j for j in obj_idx}

        def store(self):
            for j in obj_idx:
                setattr(self, "t%d" % j, eff_out[j])
            if unused_mode == "object":
                self.unused = unused_t
        obj = em_class(names_of, store)()
        info["obj"] = obj
        info["objs"] = [obj]
        if kind == "em":
            return obj.evaluate, tuple(params), info

        @xitorch.make_sibling(obj.evaluate)
        def sib(*args):
            return _scale_out(obj.evaluate(*args), 1.0)
        info["keep"] = sib
        return sib, tuple(params), info

    if kind == "em_cont":
        names_of = {}
        for k, j in enumerate(obj_idx):
            names_of[j] = ("lst[%d]" % (k // 2)) if k % 2 == 0 else ("dct['k%d']" % (k // 2))

        def store(self):
            self.lst = [eff_out[j] for k, j in enumerate(obj_idx) if k % 2 == 0]
            self.dct = {"k%d" % (k // 2): eff_out[j] for k, j in enumerate(obj_idx) if k % 2 == 1}
            if unused_mode == "object":
                self.unused = unused_t
        obj = em_class(names_of, store)()
        info["obj"] = obj
        info["objs"] = [obj]
        return obj.evaluate, tuple(params), info

    if kind == "em_nn":
        class Holder(torch.nn.Module):
            def __init__(self):
                super().__init__()
                for i in needed_leaves:
                    setattr(self, "p%d" % i, leaves[i])

        class EMNN(xitorch.EditableModule):
            def __init__(self):
                self.mod = Holder()
                if unused_mode == "object":
                    self.unused = unused_t

            def evaluate(self, *args):
                counter.tick()
                xs, eff, sc = assemble(nn_held(lambda i: getattr(self.mod, "p%d" % i)), args)
                return core(xs, eff, sc)

            def getparamnames(self, methodname, prefix=""):
                if methodname != "evaluate":
                    raise KeyError(methodname)
                names = [prefix + "mod.p%d" % i for i in needed_leaves]
                if unused_mode == "object":
                    names.append(prefix + "unused")
                return names
        obj = EMNN()
        info["obj"] = obj
        info["objs"] = [obj, obj.mod]
        return obj.evaluate, tuple(params), info

    if kind == "sib2":
        # object-held tensors split over an EditableModule (even positions) and an nn.Module (odd positions)
        em_idx = obj_idx[::2]
        nn_idx = obj_idx[1::2]
        nn_leaves = sorted({i for j in nn_idx for i in _leaf_deps(derive, j)})

        class PartEM(xitorch.EditableModule):
            def __init__(self):
                for j in em_idx:
                    setattr(self, "t%d" % j, eff_out[j])
                if unused_mode == "object":
                    self.unused = unused_t

            def part(self):
                return {j: getattr(self, "t%d" % j) for j in em_idx}

            def getparamnames(self, methodname, prefix=""):
                if methodname != "part":
                    raise KeyError(methodname)
                return [prefix + "t%d" % j for j in em_idx] + ([prefix + "unused"] if unused_mode == "object" else [])

        class PartNN(torch.nn.Module):
            def __init__(self):
                super().__init__()
                for i in nn_leaves:
                    setattr(self, "p%d" % i, leaves[i])

            def forward(self):
                leafview = {i: getattr(self, "p%d" % i) for i in nn_leaves}
                effs, out = [], {}
                for jj, rec in enumerate(derive):
                    if rec[0] == "alias":
                        effs.append(effs[rec[1]])
                    elif all(i in leafview for i in rec[1:]):
                        effs.append(derive_one(rec, leafview, effs))
                    else:
                        effs.append(None)
                for j in nn_idx:
                    out[j] = effs[j]
                return out
        o1, o2 = PartEM(), PartNN()

        def _plain(*a):          # a member without any object tensors (spec "sib3": in the middle of the sibling list)
            return None
        members = (o1.part, _plain, o2.forward) if spec.get("sib3") else (o1.part, o2.forward)

        @xitorch.make_sibling(*members)
        def sib(*args):
            counter.tick()
            held = dict(o1.part())
            held.update(o2.forward())
            xs, eff, sc = assemble(held, args)
            return core(xs, eff, sc)
        info["obj"] = o1
        info["objs"] = [o1, o2]
        info["keep"] = sib
        return sib, tuple(params), info

    raise ValueError(kind)


def _scale_out(out, s):
    if isinstance(out, torch.Tensor):
        return out * s
    return tuple(o * s for o in out)


def _leaf_deps(derive, j):
    rec = derive[j]
    if rec[0] == "alias":
        return _leaf_deps(derive, rec[1])
    return list(rec[1:])


# ----------------------------------------------------------------------------------- strategies

@st.composite
def funspec_st(draw, nleaves: int, neff: int, kinds=KINDS, allow_unused=True, allow_alias=True):
    """a function-kind spec for `neff` effective tensors built from `nleaves` leaves of equal shape"""
    kind = draw(st.sampled_from(kinds))
    derive = []
    for j in range(neff):
        ops = ["id", "id", "sq", "mul", "lin"]
        op = draw(st.sampled_from(ops))
        i = j % nleaves if j < nleaves else draw(st.integers(0, nleaves - 1))
        if op == "mul":
            derive.append(["mul", i, draw(st.integers(0, nleaves - 1))])
        else:
            derive.append([op, i])
    explicit = [kind == "pure" or draw(st.sampled_from([False, False, True])) for _ in range(neff)]
    if kind != "pure" and all(explicit):
        explicit[draw(st.integers(0, neff - 1))] = False
    unused = draw(st.sampled_from([None, None, None, "explicit", "object"])) if allow_unused else None
    if kind == "pure" and unused == "object":
        unused = "explicit"
    spec = {"kind": kind, "derive": derive, "explicit": explicit, "unused": unused,
            "nontensor": draw(st.booleans()), "scale": draw(st.sampled_from([1.0, 0.5, 2.0, -1.5]))}
    if kind == "sib2":
        spec["sib3"] = draw(st.booleans())      # make_sibling(obj1.method, plain_function, obj2.method)
    return spec


def seeded(seed: int) -> torch.Generator:
    return torch.Generator().manual_seed(int(seed) & 0x7FFFFFFF)


def randn(g, shape, dtype=torch.float64):
    if dtype.is_complex:
        re = torch.randn(shape, generator=g, dtype=torch.float64)
        im = torch.randn(shape, generator=g, dtype=torch.float64)
        return torch.complex(re, im).to(dtype)
    return torch.randn(shape, generator=g, dtype=torch.float64).to(dtype)
