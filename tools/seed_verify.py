#!/venv/bin/python
"""Confirm a seeded change and run the checks against it.
usage: tools/seed_verify.py <PID> <variant> [--checks C12,C13] [--no-suite] [--tier quick|thorough]
Reads /tmp/seed_<PID>/<variant>/{patch.diff,demo.py,notes.md}; works in a scratch worktree under /tmp (removed afterwards);
writes /verif/seeded/<PID>-<variant>/{patch.diff,demo.py,notes.md,meta.json}."""
import json, os, shutil, subprocess, sys, time
ROOT = os.path.dirname(os.path.dirname(os.path.abspath(__file__)))
args = [a for a in sys.argv[1:] if not a.startswith("--")]
pid, var = args[0].upper(), args[1]
opts = dict(a[2:].split("=", 1) if "=" in a else (a[2:], "1") for a in sys.argv[1:] if a.startswith("--"))
src = opts.get("src", "/tmp/seed_%s/%s" % (pid, var))
dst = os.path.join(ROOT, "seeded", "%s-%s" % (pid, var))
if not os.path.exists(os.path.join(src, "patch.diff")):
    src = dst       # re-verification of a change that is already kept under seeded/
assert os.path.exists(os.path.join(src, "patch.diff")), "no patch.diff in " + src
checks = opts.get("checks", pid).split(",")
tier = opts.get("tier", "quick")
wt = "/tmp/sv_%s_%s" % (pid, var)
def sh(cmd, **kw):
    return subprocess.run(cmd, shell=isinstance(cmd, str), capture_output=True, text=True, **kw)
sh("git -C /repo worktree remove --force %s" % wt)
r = sh("git -C /repo worktree add --detach %s HEAD" % wt)
assert r.returncode == 0, r.stderr
meta = {"property": pid, "variant": var, "repo_head": sh("git -C /repo rev-parse --short HEAD").stdout.strip(), "ran": []}
try:
    env = dict(os.environ, OMP_NUM_THREADS="2")
    r = sh(["/venv/bin/python", os.path.join(src, "demo.py")], cwd=wt, env=env)
    meta["demo_clean_rc"] = r.returncode
    r = sh("git -C %s apply --whitespace=nowarn %s || git -C %s apply -3 --whitespace=nowarn %s" % (wt, os.path.join(src, "patch.diff"), wt, os.path.join(src, "patch.diff")))
    meta["patch_applies"] = r.returncode == 0
    if r.returncode != 0:
        meta["apply_err"] = r.stderr[-500:]
    else:
        r = sh(["/venv/bin/python", os.path.join(src, "demo.py")], cwd=wt, env=env)
        meta["demo_patched_rc"] = r.returncode
        meta["demo_patched_tail"] = (r.stdout + r.stderr)[-400:]
        for c in checks:
            t0 = time.time()
            r = sh([os.path.join(ROOT, "check"), c, "--tier", tier, "--no-evidence"], cwd=ROOT, env=dict(os.environ, XITORCH_REPO=wt))
            kinds = [l for l in r.stdout.splitlines() if l.startswith("violation kind")]
            meta["ran"].append({"check": c, "tier": tier, "rc": r.returncode, "kinds": kinds[:3], "wall_s": round(time.time() - t0, 1)})
        if "no-suite" not in opts:
            r = sh([os.path.join(ROOT, "tools/baseline.py"), wt], env=dict(env, XDIST="1"))
            meta["suite"] = r.stdout.strip().splitlines()[0] if r.stdout.strip() else r.stderr[-300:]
    meta["caught_by"] = [x["check"] for x in meta["ran"] if x["rc"] == 1]
    os.makedirs(dst, exist_ok=True)
    for f in ("patch.diff", "demo.py", "notes.md"):
        if os.path.exists(os.path.join(src, f)) and os.path.abspath(src) != os.path.abspath(dst):
            shutil.copy(os.path.join(src, f), dst)
    if meta.get("patch_applies"):
        # store the patch re-based on the current /repo HEAD so that `git -C /repo apply` keeps working
        rb = subprocess.run(["git", "-C", wt, "diff", "HEAD"], capture_output=True)     # bytes: the sources use CRLF
        if rb.stdout.strip():
            open(os.path.join(dst, "patch.diff"), "wb").write(rb.stdout)
    old = {}
    if os.path.exists(os.path.join(dst, "meta.json")):
        old = json.load(open(os.path.join(dst, "meta.json")))
    if "suite" not in meta and "suite" in old:
        meta["suite"] = old["suite"]
    for k in ("breaks", "title", "needs"):
        if k in old:
            meta[k] = old[k]
    meta.setdefault("breaks", pid)
    meta["history"] = old.get("history", []) + [{"head": meta["repo_head"], "ran": meta["ran"]}]
    json.dump(meta, open(os.path.join(dst, "meta.json"), "w"), indent=1)
    print(json.dumps({k: meta[k] for k in ("property", "variant", "demo_clean_rc", "demo_patched_rc", "patch_applies", "suite", "caught_by") if k in meta}))
    for x in meta["ran"]:
        print("  ", x)
finally:
    sh("git -C /repo worktree remove --force %s" % wt)
    shutil.rmtree(wt, ignore_errors=True)
