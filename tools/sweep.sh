#!/bin/bash
# usage: tools/sweep.sh "<pids>" "<seeds>" [tier]  — runs each check at each seed without touching evidence; prints non-quiet runs
cd "$(dirname "$0")/.."
tier=${3:-quick}
for s in $2; do for p in $1; do
  out=$(VERIF_SEED=$s ./check $p --tier $tier --no-evidence 2>&1); rc=$?
  echo "seed=$s $p rc=$rc $(echo "$out" | grep -E "tier=" | cut -c1-120)"
  if [ $rc -ne 0 ]; then echo "$out" | tail -30; fi
done; done
