#!/venv/bin/python
"""Exact-once replacement in a /repo file preserving its line endings. usage: repo_edit.py FILE  (reads JSON [[old,new],...] from stdin)"""
import sys, json
p = sys.argv[1]
s = open(p, newline='').read()
crlf = '\r\n' in s
for old, new in json.load(sys.stdin):
    if crlf:
        old = old.replace('\r\n', '\n').replace('\n', '\r\n'); new = new.replace('\r\n', '\n').replace('\n', '\r\n')
    if s.count(old) != 1:
        print("pattern occurs %d times: %r" % (s.count(old), old[:80])); sys.exit(1)
    s = s.replace(old, new)
open(p, 'w', newline='').write(s)
print("edited", p, "crlf" if crlf else "lf")
