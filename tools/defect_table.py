#!/venv/bin/python
"""Regenerate the defect table of DESIGN.md section 5b (between the markers) from known_findings.json."""
import json, os, re
ROOT = os.path.dirname(os.path.dirname(os.path.abspath(__file__)))
d = json.load(open(os.path.join(ROOT, "known_findings.json")))
rows = []
for e in d["findings"]:
    what = e["what"]
    if e["status"] == "fixed":
        what = what.split(" ", 3)[3] if what.startswith("fixed:") else what
        rows.append("| %s | %s | fixed `%s` | %s | `%s` |" % (e["id"], e["property"], e["commit"], what, e.get("regress", "")))
    else:
        rows.append("| %s | %s | **known** (site `%s`) | %s | — |" % (e["id"], e["property"], e["site"], what))
table = "| id | property | disposition | what failed | regression case |\n|---|---|---|---|---|\n" + "\n".join(rows)
p = os.path.join(ROOT, "DESIGN.md")
s = open(p).read()
b, e_ = "<!-- DEFECT-TABLE-BEGIN -->", "<!-- DEFECT-TABLE-END -->"
if b in s:
    s = s[:s.index(b) + len(b)] + "\n" + table + "\n" + s[s.index(e_):]
else:
    m = re.search(r"\| id \| property \| disposition \| what failed \| regression case \|\n\|---\|---\|---\|---\|---\|\n(?:\|.*\n)+", s)
    s = s[:m.start()] + b + "\n" + table + "\n" + e_ + "\n" + s[m.end():]
open(p, "w").write(s)
nf = sum(x["status"] == "fixed" for x in d["findings"]); nk = len(d["findings"]) - nf
print("defects: %d fixed, %d known" % (nf, nk))
