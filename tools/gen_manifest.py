#!/venv/bin/python
"""Regenerate MANIFEST.json from the property modules present in pbt/props (keeps it valid at all times)."""
import importlib, json, os, sys, subprocess
ROOT = os.path.dirname(os.path.dirname(os.path.abspath(__file__)))
sys.path.insert(0, ROOT); sys.path.insert(0, "/repo")
sys.dont_write_bytecode = True
props = [json.loads(l) for l in open(os.path.join(ROOT, "properties.jsonl"))]
checks, na = [], []
READY = open(os.path.join(ROOT, "tools", "ready.txt")).read().split()   # properties whose check is finished and registered
for p in props:
    pid = p["id"]
    path = os.path.join(ROOT, "pbt", "props", pid.lower() + ".py")
    if pid not in READY or not os.path.exists(path):
        na.append({"property_id": pid, "reason": "check not built yet (work in progress; property-based testing applies, see DESIGN.md)"})
        continue
    m = importlib.import_module("pbt.props." + pid.lower())
    level = getattr(m, "LEVEL", "exploration")
    checks.append({
        "property_id": pid,
        "quick_cmd": "./check %s --tier quick" % pid,
        "thorough_cmd": "./check %s --tier thorough" % pid,
        "evidence_file": "evidence/%s.json" % pid,
        "replay_cmd_template": "./check %s --replay {path}" % pid,
        "engine": "pbt",
        "level_claimed": {"category": level, "text": m.LEVEL_TEXT, "design_ref": "DESIGN.md section 4, %s" % pid},
        "level_note": m.LEVEL_NOTE,
        "technique": m.TECHNIQUE,
    })
man = {
    "version": 1,
    "setup_cmd": "/venv/bin/python -c 'import hypothesis' 2>/dev/null || /venv/bin/pip install --no-index --find-links /opt/veriftools/wheels hypothesis",
    "hooks": {
        "guard": "XITORCH_VERIF",
        "enable": "no source hooks exist: checks import xitorch from /repo's working tree (sys.path) and observe it through caller-supplied callables, operators and modules; XITORCH_VERIF=1 is exported by ./check for uniformity",
        "baseline_off_cmd": "cd /repo && /venv/bin/python -m pytest -ra -q -p no:cacheprovider --timeout=900 --continue-on-collection-errors",
        "source_commits": [],
        "add_only": True,
    },
    "engines": [{"name": "pbt", "path": "pbt/harness.py", "serves_properties": [c["property_id"] for c in checks],
                 "kind_free_text": "Hypothesis 6.168 property-based testing (given + RuleBasedStateMachine), sharded over processes, explicit oracles per property in pbt/props/cNN.py, bounded shrinking, JSON replay files"}],
    "checks": checks,
    "not_applicable": na,
    "notes": "Known (recorded, unrepaired) defects are listed in known_findings.json; repaired ones appear there as 'fixed' entries and suppress nothing. tools/mutants.py runs hand-written mutants; seeded/ holds independently written breaking changes.",
}
json.dump(man, open(os.path.join(ROOT, "MANIFEST.json"), "w"), indent=1)
r = subprocess.run(["python3-vt", "-c", "import json,jsonschema;jsonschema.validate(json.load(open('%s/MANIFEST.json')), json.load(open('/root/.vp/MANIFEST.schema.json')));print('manifest valid: %d checks, %d not_applicable')" % (ROOT, len(checks), len(na))], capture_output=True, text=True)
print(r.stdout, r.stderr[-500:])
