#!/venv/bin/python
"""Run the pinned test suite of /repo (or $1) and compare with /root/.vp/BASELINE.json stable_pass."""
import json, subprocess, sys, os, tempfile, xml.etree.ElementTree as ET
repo = sys.argv[1] if len(sys.argv) > 1 else "/repo"
base = json.load(open("/root/.vp/BASELINE.json"))
want = set(base["stable_pass"])
with tempfile.TemporaryDirectory() as d:
    x = os.path.join(d, "j.xml")
    env = dict(os.environ); env.pop("XITORCH_VERIF", None); env["OMP_NUM_THREADS"] = "2"
    subprocess.run(["/venv/bin/python", "-m", "pytest", "-q", "-p", "no:cacheprovider", "--timeout=900",
                    "--continue-on-collection-errors", "-n", "8", "--junitxml=" + x] if os.environ.get("XDIST") else
                   ["/venv/bin/python", "-m", "pytest", "-q", "-p", "no:cacheprovider", "--timeout=900",
                    "--continue-on-collection-errors", "--junitxml=" + x], cwd=repo, env=env,
                   stdout=subprocess.DEVNULL, stderr=subprocess.DEVNULL)
    got = set()
    for tc in ET.parse(x).getroot().iter("testcase"):
        if not any(c.tag in ("failure", "error", "skipped") for c in tc):
            got.add(tc.get("classname") + "::" + tc.get("name"))
missing = sorted(want - got)
print("baseline stable_pass=%d now passing=%d missing=%d newly passing=%d" % (len(want), len(got), len(missing), len(got - want)))
for m in missing[:20]:
    print("  NOT PASSING:", m)
sys.exit(1 if missing else 0)
