#!/venv/bin/python
"""Fill the descriptive fields (title / needs) of seeded/<id>/meta.json from notes.md where they are missing."""
import glob, json, os, re
ROOT = os.path.dirname(os.path.dirname(os.path.abspath(__file__)))
for d in sorted(glob.glob(os.path.join(ROOT, "seeded", "*"))):
    mp, npth = os.path.join(d, "meta.json"), os.path.join(d, "notes.md")
    if not (os.path.exists(mp) and os.path.exists(npth)):
        continue
    meta = json.load(open(mp))
    if meta.get("title") and meta.get("needs"):
        continue
    text = open(npth).read()
    lines = [l.strip() for l in text.splitlines() if l.strip()]
    meta.setdefault("title", re.sub(r"^#+\s*", "", lines[0]))
    m = re.search(r"^#+[^\n]*(need|manifest|trigger)[^\n]*\n(.*?)(?=^#+\s|\Z)", text, flags=re.I | re.S | re.M)
    needs = " ".join((m.group(2) if m else "see notes.md").split())
    meta.setdefault("needs", needs[:900])
    meta.setdefault("breaks", meta.get("property"))
    json.dump(meta, open(mp, "w"), indent=1)
    print(os.path.basename(d), "|", meta["title"][:90])
