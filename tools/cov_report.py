#!/venv/bin/python
"""dev tool: which lines of xitorch do the checks reach?
usage: VERIF_COV=/tmp/vcov ./check C01 --no-evidence ...   (per check; workers write /tmp/vcov/<pid>.<shard>.cov)
       tools/cov_report.py /tmp/vcov [C01,C02 | all] [file-substring]   -> per file: % lines, missing line ranges"""
import sys, os, glob, coverage
d = sys.argv[1]
pids = sys.argv[2] if len(sys.argv) > 2 else "all"
sub = sys.argv[3] if len(sys.argv) > 3 else ""
files = [f for f in glob.glob(os.path.join(d, "*.cov")) if pids == "all" or os.path.basename(f).split(".")[0] in pids.split(",")]
out = os.path.join(d, "combined_%s" % pids.replace(",", "_"))
if os.path.exists(out):
    os.remove(out)
c = coverage.Coverage(data_file=out, config_file=False, branch=True)
c.combine(files, keep=True)
c.save()
data = c.get_data()
for fn in sorted(data.measured_files()):
    if "_tests" in fn or "_docstr" in fn or sub not in fn:
        continue
    try:
        _, stmts, _, missing, fmt = c.analysis2(fn)
    except Exception as e:  # noqa: BLE001
        continue
    if not stmts:
        continue
    print("%5.1f%% %4d/%4d %s  missing: %s" % (100 * (1 - len(missing) / len(stmts)), len(stmts) - len(missing), len(stmts),
                                         fn.split("/xitorch/", 1)[-1], fmt))
