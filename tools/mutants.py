#!/venv/bin/python
"""Sensitivity check: apply each hand-written mutant of mutants/<PID>.json to a scratch copy of /repo
(outside /repo and /verif), run the property's check against it and report caught / missed.
usage: tools/mutants.py C20 [name-substring] [--tier quick] [--tests]"""
import json, os, shutil, subprocess, sys, tempfile
ROOT = os.path.dirname(os.path.dirname(os.path.abspath(__file__)))
args = [a for a in sys.argv[1:] if not a.startswith("--")]
pid = args[0].upper(); sel = args[1] if len(args) > 1 else ""
tier = "thorough" if "--thorough" in sys.argv else "quick"
muts = json.load(open(os.path.join(ROOT, "mutants", pid + ".json")))
res = []
for m in muts:
    if sel and sel not in m["name"]:
        continue
    d = tempfile.mkdtemp(prefix="mut_%s_" % pid, dir="/tmp")
    try:
        shutil.copytree("/repo/xitorch", os.path.join(d, "xitorch"), ignore=shutil.ignore_patterns("__pycache__"))
        for e in m["edits"]:
            p = os.path.join(d, e["file"]); s = open(p).read()
            if s.count(e["old"]) != 1:
                print("STALE    %-40s pattern occurs %d times in %s" % (m["name"], s.count(e["old"]), e["file"]), flush=True)
                raise LookupError(m["name"])
            open(p, "w").write(s.replace(e["old"], e["new"]))
        env = dict(os.environ, XITORCH_REPO=d)
        checks = m.get("checks", [pid])
        caught = []
        for c in checks:
            r = subprocess.run([os.path.join(ROOT, "check"), c, "--tier", tier, "--no-evidence"], env=env, cwd=ROOT,
                               capture_output=True, text=True)
            line = [l for l in r.stdout.splitlines() if l.startswith("violation kind")]
            caught.append((c, r.returncode, line[:1]))
        status = "CAUGHT" if any(rc == 1 for _, rc, _ in caught) else ("HARNESS-ERR" if any(rc == 2 for _, rc, _ in caught) else "MISSED")
        print("%-8s %-40s %s" % (status, m["name"], caught), flush=True)
        if status == "HARNESS-ERR": print(r.stdout[-1500:], r.stderr[-1500:])
        if "--tests" in sys.argv:
            shutil.copy("/repo/pyproject.toml", d)
            r = subprocess.run([os.path.join(ROOT, "tools/baseline.py"), d], capture_output=True, text=True, env=dict(os.environ, XDIST="1"))
            print("   suite:", r.stdout.strip().splitlines()[0])
    except LookupError:
        pass
    finally:
        shutil.rmtree(d, ignore_errors=True)
