#!/venv/bin/python
"""Regenerate the 'Seeded changes' table of DESIGN.md (between the markers) from seeded/*/meta.json and notes.md."""
import glob, json, os, re
ROOT = os.path.dirname(os.path.dirname(os.path.abspath(__file__)))
rows = []
for d in sorted(glob.glob(os.path.join(ROOT, "seeded", "*"))):
    name = os.path.basename(d)
    meta = json.load(open(os.path.join(d, "meta.json")))
    title = ""
    npath = os.path.join(d, "notes.md")
    if os.path.exists(npath):
        lines = [l.strip() for l in open(npath) if l.strip()]
        title = re.sub(r"^#+\s*", "", lines[0])
        title = re.sub(r"^C\d\d\s*[-/]?\s*(variant\s*)?[a-l]\s*[:—-]*\s*", "", title, flags=re.I).strip()
    last = meta.get("ran", [])
    kinds = sorted({k.replace("violation kind: ", "")[:60] for r in last for k in r.get("kinds", [])})
    hist = meta.get("history", [])
    first_caught = bool(hist and any(x["rc"] == 1 for x in hist[0]["ran"]))
    caught = meta.get("caught_by", [])
    status = ("caught by %s" % ",".join(caught)) if caught else "MISSED"
    if caught and not first_caught:
        status += " (after strengthening the check; first run missed it)"
    rows.append("| %s | %s | %s | %s |" % (name, title[:150], status, "; ".join(kinds)[:140]))
table = "| change | what it does (needs to manifest: see seeded/<id>/notes.md) | result (quick tier) | violation kinds |\n|---|---|---|---|\n" + "\n".join(rows)
p = os.path.join(ROOT, "DESIGN.md")
s = open(p).read()
b, e = "<!-- SEEDED-TABLE-BEGIN -->", "<!-- SEEDED-TABLE-END -->"
if b in s:
    s = s[:s.index(b) + len(b)] + "\n" + table + "\n" + s[s.index(e):]
else:
    s += "\n\n--------------------------------------------------------------------------------------------\n\n## 7. Seeded changes: which checks catch which\n\nEach change was written by a fresh sub-agent that saw only the property text and a scratch worktree (nothing from /verif), and was kept only after\nthe coordinator confirmed in a scratch worktree that (i) the demonstration passes on the unchanged tree and fails with the change, (ii) the\npinned test-suite still passes all 448 baseline tests, and (iii) what the registered quick check reports (`tools/seed_verify.py`; results in\n`seeded/<id>/meta.json`, where `history[0]` is the first confrontation).\n\n" + b + "\n" + table + "\n" + e + "\n"
open(p, "w").write(s)
print("rows:", len(rows), "missed:", sum("MISSED" in r for r in rows))
